//go:build verif

package dcs

import (
	"github.com/go-zookeeper/zk"

	"github.com/yandex/mysync/internal/log"
)

// NewZookeeperOverDialer builds the real zkDCS exactly as NewZookeeper ends
// (same struct literal, same handleEvents goroutine) but over a caller-supplied
// dialer and the client library's default host provider, so that it can talk
// to the in-memory fake server inside a synctest bubble. Verification only.
func NewZookeeperOverDialer(config *ZookeeperConfig, logger *log.Logger, dialer zk.Dialer) (DCS, error) {
	conn, ec, err := zk.Connect(config.Hosts, config.SessionTimeout, zk.WithLogger(zkLoggerProxy{logger}), zk.WithDialer(dialer))
	if err != nil {
		return nil, err
	}
	z := &zkDCS{
		config:             config,
		logger:             logger,
		conn:               conn,
		disconnectCallback: func() error { return nil },
		eventsChan:         ec,
	}
	go z.handleEvents()
	return z, nil
}

// VerifSessionID exposes the client's current session id (observation only).
func VerifSessionID(d DCS) int64 {
	if z, ok := d.(*zkDCS); ok {
		return z.conn.SessionID()
	}
	return 0
}
