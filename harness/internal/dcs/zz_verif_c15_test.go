//go:build verif

package dcs

import (
	"encoding/json"
	"errors"
	"fmt"
	"io"
	"net"
	"os"
	"reflect"
	"sort"
	"strings"
	"testing"
	"testing/synctest"
	"time"

	"github.com/go-zookeeper/zk"
	"github.com/rs/zerolog"

	vs "github.com/yandex/mysync/internal/verifsim"
)

const c15NS = "/ns"

type zkClient struct {
	name string
	d    DCS
	cut  bool // reconnects refused
	// cutAt is when the client was cut off (severed and refused); zero if it is not
	cutAt time.Time
}

func newZKClient(t vs.Failer, srv *vs.ZKServer, name string, timeout, ttl time.Duration) *zkClient {
	cfg, err := DefaultZookeeperConfig()
	if err != nil {
		t.Fatalf("default zk config: %v", err)
	}
	cfg.Hostname = name
	cfg.Namespace = c15NS
	cfg.Hosts = []string{"127.0.0.1:2181"}
	cfg.SessionTimeout = timeout
	cfg.LockHeldTTL = ttl
	cfg.BackoffRandFactor = 0 // keep retry timing a function of the script only
	lg := zerolog.Nop()
	d, err := NewZookeeperOverDialer(&cfg, &lg, srv.Dialer(name))
	if err != nil {
		t.Fatalf("connect: %v", err)
	}
	return &zkClient{name: name, d: d}
}

// runOp runs f in its own goroutine and advances virtual time until it returns.
func runOp(c *vs.Case, what string, f func()) {
	done := make(chan struct{})
	go func() { defer close(done); f() }()
	for i := 0; ; i++ {
		synctest.Wait()
		select {
		case <-done:
			return
		default:
		}
		if i > 600 {
			c.Violation("c15-op-hangs", "%s did not return within 60 virtual seconds", what)
		}
		time.Sleep(100 * time.Millisecond)
	}
}

type mnode struct {
	data  []byte
	owner int64
}

// isConnErr: the call failed because of the connection - one of the client library's
// connection sentinels or a raw network error surfacing from a dropped connection.
// Everything else is a data-level answer and is judged against the model.
func isConnErr(err error) bool {
	if err == nil {
		return false
	}
	for _, e := range []error{zk.ErrNoServer, zk.ErrConnectionClosed, zk.ErrSessionExpired, zk.ErrClosing, io.ErrClosedPipe, io.EOF, io.ErrUnexpectedEOF, os.ErrDeadlineExceeded} {
		if errors.Is(err, e) {
			return true
		}
	}
	var ne net.Error
	return errors.As(err, &ne) || strings.Contains(err.Error(), "closed pipe") || strings.Contains(err.Error(), "failed to read from connection")
}

func c15Normalize(p string) string {
	var parts []string
	for _, x := range strings.Split(p, "/") {
		if x != "" {
			parts = append(parts, x)
		}
	}
	if len(parts) == 0 {
		return c15NS
	}
	return c15NS + "/" + strings.Join(parts, "/")
}

func c15Parent(p string) string { return p[:strings.LastIndex(p, "/")] }

var c15Keys = [][]string{{"a"}, {"a", "b"}, {"a", "b", "c"}, {"d"}, {"d", "e"}, {"health", "h1"}, {"health", "h2"}, {"x"}, {}}

func c15Spell(c *vs.Case, key []string) string {
	var sb strings.Builder
	if c.Src.Int("lead_slashes", 0, 2) > 0 {
		sb.WriteString(strings.Repeat("/", c.Src.Int("lead_n", 1, 2)))
	}
	for i, k := range key {
		if i > 0 {
			sb.WriteString(strings.Repeat("/", 1+c.Src.Int("sep_extra", 0, 2)/2))
		}
		sb.WriteString(k)
	}
	if len(key) > 0 && c.Src.Int("trail_slash", 0, 3) == 0 {
		sb.WriteString(strings.Repeat("/", c.Src.Int("trail_n", 1, 2)))
	}
	return sb.String()
}

func c15Value(c *vs.Case) any {
	switch c.Src.Pick("value", "null", "int", "string", "list", "object", "bool", "empty-string") {
	case "null":
		return nil
	case "int":
		return c.Src.Int("int", -3, 1000)
	case "string":
		return fmt.Sprintf("s%d", c.Src.Int("str", 0, 9))
	case "list":
		return []any{1, "two", nil}
	case "object":
		return map[string]any{"k": c.Src.Int("objv", 0, 9), "nested": map[string]any{"z": []int{1}}}
	case "bool":
		return c.Src.Bool("boolv")
	}
	return ""
}

func jsonEq(a any, raw []byte) bool {
	var x, y any
	ab, _ := json.Marshal(a)
	if json.Unmarshal(ab, &x) != nil || json.Unmarshal(raw, &y) != nil {
		return false
	}
	return reflect.DeepEqual(x, y)
}

type c15Model struct {
	nodes map[string]*mnode
}

// clone copies the model, leaving out ephemeral keys owned by the given sessions.
func (m *c15Model) clone(without map[int64]bool) *c15Model {
	n := &c15Model{nodes: make(map[string]*mnode, len(m.nodes))}
	for p, x := range m.nodes {
		if x.owner != 0 && without[x.owner] {
			continue
		}
		cp := *x
		cp.data = append([]byte(nil), x.data...)
		n.nodes[p] = &cp
	}
	return n
}

func (m *c15Model) children(p string) []string {
	var ch []string
	for q := range m.nodes {
		if q != p && c15Parent(q) == p {
			ch = append(ch, q[len(p)+1:])
		}
	}
	sort.Strings(ch)
	return ch
}

func (m *c15Model) tree(p string) any {
	ch := m.children(p)
	if len(ch) == 0 {
		d := m.nodes[p].data
		if len(d) == 0 {
			return nil
		}
		var v any
		if json.Unmarshal(d, &v) != nil {
			return string(d)
		}
		return v
	}
	r := map[string]any{}
	for _, c := range ch {
		r[c] = m.tree(p + "/" + c)
	}
	return r
}

// missingAncestors returns the ancestors of p (top-down) that do not exist,
// and whether creation below an existing ephemeral ancestor would be needed.
func (m *c15Model) missingAncestors(p string) (missing []string, blocked bool) {
	parts := strings.Split(strings.TrimPrefix(p, "/"), "/")
	cur := ""
	for _, x := range parts[:len(parts)-1] {
		cur += "/" + x
		if n, ok := m.nodes[cur]; !ok {
			missing = append(missing, cur)
		} else if n.owner != 0 {
			blocked = true
		}
	}
	return
}

func TestVerifC15(t *testing.T) {
	s := vs.NewStats(t, "C15")
	s.Rule = "stateful: 1-3 real zkDCS clients over the fake ZooKeeper in a synctest bubble + a raw writer; 8-40 steps drawn from {Create, CreateEphemeral, Set, SetEphemeral, Get, Delete, GetChildren, GetTree} on 9 keys of depth 0-3 with random redundant slashes and 7 JSON value shapes, raw writes of non-JSON bytes, a create request lost on the wire while somebody else creates the key before the re-send, sever / cut-off (sever+refuse) / heal / force-expire of a client, virtual-time advances shorter and longer than the session timeout; after every step each call result and the server's whole tree are compared with a reference tree model written from the statement; non-trivial = an ephemeral key outlived-or-died with its session, a malformed read, or a parent creation happened"
	s.Assumptions = []string{
		"fake ZooKeeper implements documented znode/session semantics (versions, ephemerals deleted at session expiry, no children under ephemerals)",
		"session liveness used by the reference model is the fake server's; the timing clause (ephemerals gone within the session timeout after a cut-off) is asserted separately against the virtual clock",
		"faults are injected between operations, so a multi-request operation is never cut in the middle (the statement promises no atomicity)",
	}
	s.Check(t, vs.CheckOpts{Bubble: true}, func(c *vs.Case) {
		timeout := []time.Duration{time.Second, 3 * time.Second}[c.Src.Int("session_timeout", 0, 1)]
		srv := vs.NewZKServer()
		nclients := c.Src.Int("clients", 1, 3)
		var clients []*zkClient
		defer func() {
			for _, cl := range clients {
				cl.d.Close()
			}
			srv.Stop()
			time.Sleep(2 * time.Second) // let client goroutines wind down
			synctest.Wait()
			if g := vs.DurablyBlocked(); len(g) > 0 {
				t.Logf("LEFTOVER GOROUTINES:\n%s", strings.Join(g, "\n\n"))
			}
		}()
		for i := 0; i < nclients; i++ {
			cl := newZKClient(c.RTOrT(t), srv, fmt.Sprintf("c%d", i), timeout, 30*time.Second)
			clients = append(clients, cl)
			if !cl.d.WaitConnected(5 * time.Second) {
				c.Violation("c15-connect", "client %d did not connect", i)
			}
		}
		clients[0].d.Initialize()
		model := &c15Model{nodes: map[string]*mnode{c15NS: {data: []byte{}}}}
		sawEphemeralEnd, sawMalformed, sawParent := false, false, false

		// treeDiff brings m up to date with ended sessions and returns the first difference
		// between it and the server's tree ("" if none).
		treeDiff := func(m *c15Model, step string) (string, string) {
			for p, n := range m.nodes {
				if n.owner != 0 && !srv.SessionAlive(n.owner) {
					delete(m.nodes, p)
					sawEphemeralEnd = true
				}
			}
			dump := srv.Dump()
			delete(dump, "/")
			var paths []string
			for p := range m.nodes {
				paths = append(paths, p)
			}
			sort.Strings(paths)
			for _, p := range paths {
				n := m.nodes[p]
				v, ok := dump[p]
				if !ok {
					return "c15-tree-missing", fmt.Sprintf("after %s: key %s should exist (owner session %x) but is absent on the server", step, p, n.owner)
				}
				if v.Data != string(n.data) {
					return "c15-tree-data", fmt.Sprintf("after %s: key %s holds %q, reference model %q", step, p, v.Data, n.data)
				}
				if (v.Owner != 0) != (n.owner != 0) {
					return "c15-tree-ephemeral", fmt.Sprintf("after %s: key %s ephemeral=%v on the server, reference model ephemeral=%v", step, p, v.Owner != 0, n.owner != 0)
				}
			}
			paths = paths[:0]
			for p := range dump {
				paths = append(paths, p)
			}
			sort.Strings(paths)
			for _, p := range paths {
				if _, ok := m.nodes[p]; !ok {
					return "c15-tree-extra", fmt.Sprintf("after %s: key %s exists on the server (%q) but not in the reference model", step, p, dump[p].Data)
				}
			}
			return "", ""
		}
		compare := func(step string) {
			if sig, msg := treeDiff(model, step); sig != "" {
				c.Violation(sig, "%s", msg)
			}
			// timing clause: a client cut off for longer than the session timeout has no ephemeral keys left
			for _, cl := range clients {
				if !cl.cutAt.IsZero() && time.Since(cl.cutAt) > timeout+200*time.Millisecond {
					if ids := srv.LiveSessions(cl.name); len(ids) > 0 {
						c.Violation("c15-session-outlives-timeout", "after %s: client %s cut off %v ago (timeout %v) still has live sessions %x", step, cl.name, time.Since(cl.cutAt), timeout, ids)
					}
				}
			}
		}

		sawRival := false
		defer func() {
			if sawRival {
				c.Class("rival-created-the-key-while-a-create-was-in-limbo")
			}
		}()
		steps := c.Src.Int("steps", 8, 40)
		for i := 0; i < steps; i++ {
			act := c.Src.Pick("action", "create", "create-ephemeral", "set", "set-ephemeral", "get", "delete", "children", "tree",
				"raw-write", "sever", "cut-off", "heal", "expire", "advance")
			step := fmt.Sprintf("step %d %s", i, act)
			switch act {
			case "raw-write":
				key := c15Keys[c.Src.Int("key", 0, len(c15Keys)-2)]
				full := c15Normalize(strings.Join(key, "/"))
				data := []byte(c.Src.Pick("raw", "not json", "", "{\"a\":1}", "{broken", "42"))
				if miss, blocked := model.missingAncestors(full); !blocked {
					if n, ok := model.nodes[full]; ok && n.owner != 0 {
						break // the external tool does not overwrite ephemeral records
					}
					for _, p := range miss {
						model.nodes[p] = &mnode{data: []byte{}}
					}
					if n, ok := model.nodes[full]; ok {
						n.data = data
					} else {
						model.nodes[full] = &mnode{data: data}
					}
					srv.RawSet(full, data)
				}
			case "sever":
				cl := clients[c.Src.Int("client", 0, nclients-1)]
				srv.Link(cl.name).Sever()
			case "cut-off":
				cl := clients[c.Src.Int("client", 0, nclients-1)]
				srv.Link(cl.name).Set(func(l *vs.ZKLink) { l.Refuse = true })
				srv.Link(cl.name).Sever()
				if cl.cutAt.IsZero() {
					cl.cutAt = time.Now()
				}
				cl.cut = true
			case "heal":
				cl := clients[c.Src.Int("client", 0, nclients-1)]
				srv.Link(cl.name).Set(func(l *vs.ZKLink) { l.Refuse = false })
				cl.cut, cl.cutAt = false, time.Time{}
			case "expire":
				cl := clients[c.Src.Int("client", 0, nclients-1)]
				srv.ExpireClient(cl.name)
			case "advance":
				d := []time.Duration{100 * time.Millisecond, timeout / 4, timeout/2 + 50*time.Millisecond, timeout + 300*time.Millisecond, 2*timeout + time.Second}[c.Src.Int("advance", 0, 4)]
				time.Sleep(d)
				synctest.Wait()
			default:
				cl := clients[c.Src.Int("client", 0, nclients-1)]
				key := c15Keys[c.Src.Int("key", 0, len(c15Keys)-1)]
				spelled := c15Spell(c, key)
				full := c15Normalize(spelled)
				if want := c15Normalize(strings.Join(key, "/")); want != full {
					t.Fatalf("harness: spelling %q normalises to %q, key is %q", spelled, full, want)
				}
				step += fmt.Sprintf(" client=%s path=%q", cl.name, spelled)
				if len(key) == 0 && (act == "create" || act == "create-ephemeral" || act == "set-ephemeral" || act == "delete") {
					break
				}
				var val any
				if act == "create" || act == "create-ephemeral" || act == "set" || act == "set-ephemeral" {
					val = c15Value(c)
				}
				// bring the model up to date with sessions that ended before the call
				for p, n := range model.nodes {
					if n.owner != 0 && !srv.SessionAlive(n.owner) {
						delete(model.nodes, p)
						sawEphemeralEnd = true
					}
				}
				// the interleaving a sequential driver cannot produce: the client's create request is
				// lost on the wire (connection cut, session kept) and, before the client re-sends it,
				// somebody else creates the key. 'exists' is then the only right answer.
				srv.Intercept = nil
				if (act == "create" || act == "create-ephemeral") && len(key) > 0 && c.Src.Int("rival_creates_the_key_while_the_request_is_in_limbo", 0, 5) == 0 {
					if _, exists := model.nodes[full]; !exists {
						if miss, blocked := model.missingAncestors(full); !blocked && len(miss) == 0 {
							armed := true
							srv.Intercept = func(r *vs.ZKReq) vs.ZKAction {
								if !armed || r.Client != cl.name || r.Op != vs.OpCreate || strings.Trim(r.Path, "/") != strings.Trim(full, "/") {
									return vs.ZKProceed
								}
								armed = false
								srv.RawSet(full, []byte(`"rival"`))
								model.nodes[full] = &mnode{data: []byte(`"rival"`)}
								sawRival = true
								return vs.ZKCutBefore
							}
						}
					}
				}
				mutsBefore := srv.MutLen()
				var (
					err  error
					sess int64
					dest any
					ch   []string
					tr   any
				)
				runOp(c, step, func() {
					switch act {
					case "create":
						err = cl.d.Create(spelled, val)
					case "create-ephemeral":
						err = cl.d.CreateEphemeral(spelled, val)
					case "set":
						err = cl.d.Set(spelled, val)
					case "set-ephemeral":
						err = cl.d.SetEphemeral(spelled, val)
					case "get":
						err = cl.d.Get(spelled, &dest)
					case "delete":
						err = cl.d.Delete(spelled)
					case "children":
						ch, err = cl.d.GetChildren(spelled)
					case "tree":
						tr, err = cl.d.GetTree(spelled)
					}
					sess = VerifSessionID(cl.d)
				})
				if isConnErr(err) {
					c.Class("op-on-disconnected-client")
					break
				}
				// A call on a reconnecting client takes virtual time; sessions of other (cut
				// off) clients may end while it waits, taking their ephemeral keys with them.
				// The result must then be right for the tree before or after those ends.
				endedDuring := map[int64]bool{}
				for _, m := range srv.MutSnapshot()[mutsBefore:] {
					if m.Op == vs.OpExpire {
						endedDuring[m.Session] = true
					}
				}
				type evalFail struct{ sig, msg string }
				judge := func(m *c15Model) (ef *evalFail) {
					defer func() {
						if r := recover(); r != nil {
							if x, ok := r.(evalFail); ok {
								ef = &x
								return
							}
							panic(r)
						}
					}()
					fail := func(sig, format string, args ...any) { panic(evalFail{sig, fmt.Sprintf(format, args...)}) }
					node, exists := m.nodes[full]
					data, _ := json.Marshal(val)
					switch act {
					case "create", "create-ephemeral":
						if exists != errors.Is(err, ErrExists) {
							fail("c15-create-exists", "%s: key present=%v but create returned %v (must be ErrExists exactly when the key exists)", step, exists, err)
						}
						if exists {
							return
						}
						parent, pok := m.nodes[c15Parent(full)]
						if !pok || parent.owner != 0 {
							if err == nil {
								fail("c15-create-parent", "%s: create succeeded although the parent is missing or ephemeral", step)
							}
							return
						}
						if err != nil {
							fail("c15-create-fails", "%s: create of an absent key under an existing parent failed: %v", step, err)
						}
						n := &mnode{data: data}
						if act == "create-ephemeral" {
							n.owner = sess
						}
						m.nodes[full] = n
					case "set", "set-ephemeral":
						if exists {
							if act == "set-ephemeral" && node.owner == 0 {
								if err == nil {
									fail("c15-ephemeral-over-plain", "%s: SetEphemeral on a plain key reported success", step)
								}
								return // model unchanged; the tree comparison proves it stayed plain
							}
							if err != nil {
								fail("c15-set-fails", "%s: overwrite of an existing key failed: %v", step, err)
							}
							node.data = data
							return
						}
						miss, blocked := m.missingAncestors(full)
						if blocked {
							if err == nil {
								fail("c15-set-under-ephemeral", "%s: set below an ephemeral key reported success", step)
							}
							return
						}
						if err != nil {
							fail("c15-set-fails", "%s: set of an absent key failed: %v (missing parents %v must be created)", step, err, miss)
						}
						for _, p := range miss {
							m.nodes[p] = &mnode{data: []byte{}}
							sawParent = true
						}
						n := &mnode{data: data}
						if act == "set-ephemeral" {
							n.owner = sess
						}
						m.nodes[full] = n
					case "get":
						switch {
						case !exists:
							if !errors.Is(err, ErrNotFound) {
								fail("c15-get-missing", "%s: get of a missing key returned %v, want ErrNotFound", step, err)
							}
						case !json.Valid(node.data):
							sawMalformed = true
							if !errors.Is(err, ErrMalformed) {
								fail("c15-get-malformed", "%s: key holds unparsable bytes %q but get returned %v, want ErrMalformed", step, node.data, err)
							}
						default:
							if err != nil {
								fail("c15-get-fails", "%s: get of key holding %q failed: %v", step, node.data, err)
							}
							if !jsonEq(dest, node.data) {
								fail("c15-get-value", "%s: get returned %v, key holds %q", step, dest, node.data)
							}
						}
					case "delete":
						switch {
						case !exists:
							if err != nil {
								fail("c15-delete-missing", "%s: delete of a missing key returned %v, want nil (idempotent)", step, err)
							}
						case len(m.children(full)) > 0:
							if err == nil {
								fail("c15-delete-nonempty", "%s: delete of a key with children reported success", step)
							}
						default:
							if err != nil {
								fail("c15-delete-fails", "%s: delete of a leaf failed: %v", step, err)
							}
							delete(m.nodes, full)
						}
					case "children":
						if !exists {
							if !errors.Is(err, ErrNotFound) {
								fail("c15-children-missing", "%s: children of a missing key returned (%v, %v), want ErrNotFound", step, ch, err)
							}
							return
						}
						got := append([]string{}, ch...)
						sort.Strings(got)
						if err != nil || !reflect.DeepEqual(got, append([]string{}, m.children(full)...)) {
							fail("c15-children", "%s: children returned (%v, %v), reference model %v", step, ch, err, m.children(full))
						}
					case "tree":
						if !exists {
							if err == nil {
								fail("c15-tree-of-missing", "%s: GetTree of a missing key returned %v without error", step, tr)
							}
							return
						}
						wb, _ := json.Marshal(m.tree(full))
						if err != nil || !jsonEq(tr, wb) {
							fail("c15-gettree", "%s: GetTree returned (%v, %v), reference model %s", step, tr, err, wb)
						}
					}
					return nil
				}
				// candidate readings: the call saw the tree as it was before, or after, the
				// sessions that ended while it waited; one of them must explain both the
				// result and the server's tree afterwards
				cands := []*c15Model{model.clone(nil)}
				if len(endedDuring) > 0 {
					c.Class("session-ended-during-call")
					cands = append(cands, model.clone(endedDuring))
				}
				var first *evalFail
				chosen := (*c15Model)(nil)
				for _, m := range cands {
					ef := judge(m)
					if ef == nil {
						if sig, msg := treeDiff(m, step); sig != "" {
							ef = &evalFail{sig, msg}
						}
					}
					if ef == nil {
						chosen = m
						break
					}
					if first == nil {
						first = ef
					}
				}
				if chosen == nil {
					c.Violation(first.sig, "%s", first.msg)
				}
				model = chosen
			}
			compare(step)
		}
		if sawEphemeralEnd {
			c.Class("ephemeral-key-ended-with-session")
		}
		if sawMalformed {
			c.Class("malformed-read")
		}
		if sawParent {
			c.Class("parent-created")
		}
		if sawEphemeralEnd || sawMalformed || sawParent {
			c.NonTrivial()
		}
	})
}
