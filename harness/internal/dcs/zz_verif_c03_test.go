//go:build verif

package dcs

import (
	"fmt"
	"strings"
	"sync/atomic"
	"testing"
	"testing/synctest"
	"time"

	vs "github.com/yandex/mysync/internal/verifsim"
)

const c03Lock = c15NS + "/manager"

// lockOwnerAt replays the server's mutation log up to index n (exclusive) and
// returns the client owning the lock znode then ("" if none).
func lockOwnerAt(muts []vs.ZKMutation, n int) (client string, session int64) {
	for _, m := range muts[:n] {
		if m.Path != c03Lock {
			continue
		}
		switch m.Op {
		case vs.OpCreate:
			if m.Owner != 0 {
				client, session = m.Client, m.Owner
			} else {
				client, session = "persistent:"+m.Client, 0
			}
		case vs.OpDelete, vs.OpExpire, vs.OpRawDelete:
			client, session = "", 0
		}
	}
	return
}

// TestVerifC03Lock: the coordination-layer half of C03 - lock answers of real zkDCS
// clients are always backed by server-side ownership, and releases never remove a
// lock owned by someone else.
func TestVerifC03Lock(t *testing.T) {
	s := vs.NewStats(t, "C03")
	s.Rule = "stateful: 2-3 real zkDCS clients (distinct process identities; restart = new incarnation) over the fake ZooKeeper in a synctest bubble; lock cache TTL in {0,1s,30s,10min}, session timeout in {1s,3s}; 10-50 steps from {acquire, release, advance time, sever, refuse/allow reconnects, black-hole client->server / server->client, delay < T/3, force-expire, crash+restart of a client, stop/restart of the server}; oracle over the server's mutation log: each true answer to client c over the call interval [s,e] is backed by the lock znode being owned by a live session of c at some instant of [s,e]; every delete of the lock znode comes from the owning session; non-trivial = two different clients were told true in one case, or a true answer was served from the cache after a network fault"
	s.Assumptions = []string{
		"ZooKeeper timing assumption: message delays stay below a third of the session timeout; sessions expire only by the server's timer or an explicit server-side expiry",
		"all simulated processes share one OS pid, so the incarnation number is folded into the ZooKeeper hostname identity; a restarted daemon re-using its predecessor's pid on the same host is outside the generated domain",
		"goroutine scheduling lag between a disconnect event and the cache being cleared is not modelled (virtual time)",
	}
	s.Check(t, vs.CheckOpts{Bubble: true}, func(c *vs.Case) {
		timeout := []time.Duration{time.Second, 3 * time.Second}[c.Src.Int("session_timeout", 0, 1)]
		ttl := []time.Duration{0, time.Second, 30 * time.Second, 10 * time.Minute}[c.Src.Int("lock_held_ttl", 0, 3)]
		srv := vs.NewZKServer()
		n := c.Src.Int("clients", 2, 3)
		type cli struct {
			*zkClient
			slot, inc int
			faulted   bool // a network fault hit this client since its last non-cached answer
		}
		var clients []*cli
		var dead []*zkClient
		var pendingRivals atomic.Int32
		defer func() {
			for _, cl := range clients {
				cl.d.Close()
			}
			for _, d := range dead {
				d.d.Close()
			}
			srv.Stop()
			time.Sleep(2 * time.Second)
			synctest.Wait()
			// a rival that was acting inside the interceptor may still be in its (bounded) retry loop
			for i := 0; i < 1800 && pendingRivals.Load() > 0; i++ {
				time.Sleep(time.Second)
				synctest.Wait()
			}
			if g := vs.DurablyBlocked(); len(g) > 0 {
				t.Logf("LEFTOVER GOROUTINES:\n%s", strings.Join(g, "\n\n"))
			}
		}()
		for i := 0; i < n; i++ {
			cl := &cli{zkClient: newZKClient(c.RTOrT(t), srv, fmt.Sprintf("p%d#1", i), timeout, ttl), slot: i, inc: 1}
			clients = append(clients, cl)
			cl.d.WaitConnected(5 * time.Second)
		}
		clients[0].d.Initialize()
		// request-level faults: the next request of the armed kind from the armed client is
		// cut before it is applied, applied with the reply lost, or left unanswered
		type armed struct {
			op    int32
			act   vs.ZKAction
			rival func() // what another process does while the armed request is in limbo
		}
		arm := map[string]*armed{}
		srv.Intercept = func(r *vs.ZKReq) vs.ZKAction {
			if a := arm[r.Client]; a != nil && a.op == r.Op {
				delete(arm, r.Client)
				if a.rival != nil {
					a.rival()
				}
				return a.act
			}
			return vs.ZKProceed
		}
		told := map[int]bool{}
		serverDown := false
		cachedAfterFault := false
		checkedDeletes := 0

		checkDeletes := func(step string) {
			muts := srv.MutSnapshot()
			for ; checkedDeletes < len(muts); checkedDeletes++ {
				m := muts[checkedDeletes]
				if m.Path == c03Lock && m.Op == vs.OpDelete && m.Session != m.Owner {
					c.Violation("c03-foreign-delete", "%s: lock znode owned by session %x was deleted by session %x (client %s)", step, m.Owner, m.Session, m.Client)
				}
			}
		}

		steps := c.Src.Int("steps", 10, 50)
		for i := 0; i < steps; i++ {
			act := c.Src.Pick("action", "acquire", "acquire", "acquire", "release", "advance", "sever", "refuse", "allow",
				"blackhole-c2s", "blackhole-s2c", "clear-blackhole", "delay", "expire", "crash-restart", "server-down", "server-up", "arm-request-fault")
			cl := clients[c.Src.Int("client", 0, n-1)]
			step := fmt.Sprintf("step %d %s %s", i, act, cl.name)
			link := srv.Link(cl.name)
			switch act {
			case "acquire":
				before := srv.MutLen()
				reqBefore := srv.ReqLen()
				var got bool
				runOp(c, step, func() { got = cl.d.AcquireLock("manager") })
				muts := srv.MutSnapshot()
				after := len(muts)
				c.Tracef("%v %s -> %v", time.Now().Format("15:04:05.000"), step, got)
				if got {
					told[cl.slot] = true
					backed := false
					for k := before; k <= after; k++ {
						if owner, _ := lockOwnerAt(muts, k); owner == cl.name {
							backed = true
						}
					}
					if !backed {
						o1, _ := lockOwnerAt(muts, before)
						o2, _ := lockOwnerAt(muts, after)
						c.Violation("c03-unbacked-true", "%s: told it holds the lock, but during the call the lock znode was owned by %q .. %q, never by a session of %s", step, o1, o2, cl.name)
					}
					served := srv.ReqLen() != reqBefore
					if !served && cl.faulted {
						cachedAfterFault = true
					}
					if served {
						cl.faulted = false
					}
				}
			case "release":
				mb := srv.MutSnapshot()
				ownerBefore, _ := lockOwnerAt(mb, len(mb))
				runOp(c, step, func() { cl.d.ReleaseLock("manager") })
				ma := srv.MutSnapshot()
				ownerAfter, _ := lockOwnerAt(ma, len(ma))
				if ownerBefore != "" && ownerBefore != cl.name && ownerAfter != ownerBefore {
					// the owner may also have lost it by expiry meanwhile; deletes are attributed below
					c.Class("release-by-non-owner-while-owner-changed")
				}
				if ownerBefore != "" && ownerBefore != cl.name {
					c.Class("release-by-non-owner")
				}
			case "advance":
				d := []time.Duration{50 * time.Millisecond, timeout / 4, timeout / 2, timeout + 200*time.Millisecond, 3 * timeout, 31 * time.Second}[c.Src.Int("advance", 0, 5)]
				time.Sleep(d)
			case "sever":
				link.Sever()
				cl.faulted = true
			case "refuse":
				link.Set(func(l *vs.ZKLink) { l.Refuse = true })
			case "allow":
				link.Set(func(l *vs.ZKLink) { l.Refuse = false })
			case "blackhole-c2s":
				link.Set(func(l *vs.ZKLink) { l.DropC2S = true })
				cl.faulted = true
			case "blackhole-s2c":
				link.Set(func(l *vs.ZKLink) { l.DropS2C = true })
				cl.faulted = true
			case "clear-blackhole":
				link.Set(func(l *vs.ZKLink) { l.DropC2S, l.DropS2C, l.Delay = false, false, 0 })
			case "delay":
				d := []time.Duration{0, timeout / 10, timeout / 4}[c.Src.Int("delay", 0, 2)]
				link.Set(func(l *vs.ZKLink) { l.Delay = d })
			case "expire":
				// An administrative expiry is only in the domain without message delay: with
				// delay d the client cannot learn of it sooner than d later (true of any
				// client-side lock cache), and the statement's timing assumption is that
				// sessions end by the server's timer. Let delayed messages drain first.
				link.Set(func(l *vs.ZKLink) { l.Delay = 0 })
				link.Drain()
				synctest.Wait()
				srv.ExpireClient(cl.name)
				cl.faulted = true
			case "crash-restart":
				// SIGKILL: connections vanish without a close handshake, the session lingers
				link.Set(func(l *vs.ZKLink) { l.Refuse = true })
				link.Sever()
				dead = append(dead, cl.zkClient)
				cl.inc++
				cl.zkClient = newZKClient(c.RTOrT(t), srv, fmt.Sprintf("p%d#%d", cl.slot, cl.inc), timeout, ttl)
				cl.faulted = false
			case "arm-request-fault":
				op := map[string]int32{"get": vs.OpGetData, "create": vs.OpCreate, "delete": vs.OpDelete}[c.Src.Pick("fault_op", "get", "create", "delete")]
				act := map[string]vs.ZKAction{"cut-before": vs.ZKCutBefore, "reply-lost": vs.ZKCutAfter, "hang": vs.ZKHang}[c.Src.Pick("fault_kind", "cut-before", "reply-lost", "hang")]
				a := &armed{op: op, act: act}
				if n > 1 && c.Src.Bool("rival_acquires_while_the_request_is_in_limbo") {
					// the interleaving a sequential driver cannot produce: another process takes the
					// lock between this client's lost request and its retry
					rv := clients[(cl.slot+1+c.Src.Int("rival", 0, n-2))%n]
					a.rival = func() {
						// only a rival whose own path to the server is clean acts (its call has to return
						// before the armed request is answered; a rival stuck in retries would block
						// the armed client's server goroutine for good)
						healthy := false
						srv.Link(rv.name).Set(func(l *vs.ZKLink) { healthy = !l.Refuse && !l.DropC2S && !l.DropS2C && l.Delay == 0 })
						if !healthy || serverDown || arm[rv.name] != nil {
							return
						}
						pendingRivals.Add(1)
						defer pendingRivals.Add(-1)
						if rv.d.AcquireLock("manager") {
							told[rv.slot] = true
							c.Tracef("%v rival %s acquired inside %s's request", time.Now().Format("15:04:05.000"), rv.name, cl.name)
						}
					}
				}
				arm[cl.name] = a
				cl.faulted = true
			case "server-down":
				serverDown = true
				srv.SetDown(true)
				for _, x := range clients {
					x.faulted = true
				}
			case "server-up":
				serverDown = false
				srv.SetDown(false)
			}
			synctest.Wait()
			checkDeletes(step)
		}
		if len(told) >= 2 {
			c.Class("two-clients-told-true")
			c.NonTrivial()
		}
		if cachedAfterFault {
			c.Class("cached-true-after-fault")
			c.NonTrivial()
		}
	})
}
