//go:build verif

package mysql

// VerifCloseAll closes every node handle the cluster knows (HA, cascade and
// local), so that a simulated process leaves no database/sql goroutine behind
// at the end of a case. Cluster.Close only closes HA nodes. Verification only.
func (c *Cluster) VerifCloseAll() {
	c.Lock()
	defer c.Unlock()
	for _, n := range c.haNodes {
		_ = n.Close()
	}
	for _, n := range c.cascadeNodes {
		_ = n.Close()
	}
	if c.local != nil {
		_ = c.local.Close()
	}
}

// VerifOpenHandles reports how many node handles have an initialised pool.
func (c *Cluster) VerifOpenHandles() int {
	c.Lock()
	defer c.Unlock()
	n := 0
	seen := map[*Node]bool{}
	for _, x := range c.haNodes {
		seen[x] = true
	}
	for _, x := range c.cascadeNodes {
		seen[x] = true
	}
	if c.local != nil {
		seen[c.local] = true
	}
	for x := range seen {
		if x.done.Load() != 0 {
			n++
		}
	}
	return n
}
