//go:build verif

package mysql

import (
	"fmt"
	"math"
	"testing"

	"github.com/yandex/mysync/internal/config"
	vs "github.com/yandex/mysync/internal/verifsim"
)

// c12Oracle checks the statement of C12 for one (n, w, p, semiSync) through the
// three exported methods of the real SwitchHelper. It returns "" or a message.
func c12Oracle(list []string, w, p int, semi bool) string {
	n := len(list)
	cfg := config.Config{RplSemiSyncMasterWaitForSlaveCount: w, SemiSync: semi}
	sh := NewSwitchHelper(&cfg)
	r := sh.GetRequiredWaitSlaveCount(list)
	q := sh.GetFailoverQuorum(list)
	replicas := n - 1
	if replicas < 0 {
		replicas = 0
	}
	if r < 0 || r > replicas {
		return fmt.Sprintf("required acks %d exceeds replicas in list %d (n=%d w=%d)", r, replicas, n, w)
	}
	if r == 0 && !(replicas == 0 || w == 0) {
		return fmt.Sprintf("required acks is 0 although list has %d replicas and configured count is %d", replicas, w)
	}
	if q < 1 {
		return fmt.Sprintf("failover quorum %d < 1 (n=%d w=%d)", q, n, w)
	}
	if !(q+r > replicas) {
		return fmt.Sprintf("quorum %d + required acks %d does not exceed replicas %d (n=%d w=%d): a failover set can miss every acker", q, r, replicas, n, w)
	}
	err := sh.CheckFailoverQuorum(list, p)
	if semi {
		if (err != nil) != (p < q) {
			return fmt.Sprintf("semi-sync: CheckFailoverQuorum(p=%d) err=%v but quorum is %d (n=%d w=%d)", p, err, q, n, w)
		}
	} else {
		if (err != nil) != (p <= 0) {
			return fmt.Sprintf("async: CheckFailoverQuorum(p=%d) err=%v; must fail exactly when no alive active replica (n=%d)", p, err, n)
		}
	}
	return ""
}

func c12Script(n, w, p int, semi bool) []vs.Draw {
	return []vs.Draw{{L: "n", V: n}, {L: "w", V: w}, {L: "p", V: p}, {L: "semi", V: semi}}
}

func mkList(n int) []string {
	l := make([]string, n)
	for i := range l {
		l[i] = fmt.Sprintf("h%d", i)
	}
	return l
}

// TestVerifC12Exhaustive enumerates every (n, w, p, semi) up to a bound.
func TestVerifC12Exhaustive(t *testing.T) {
	s := vs.NewStats(t, "C12")
	bound := 150
	if vs.Tier() == "thorough" {
		bound = 400
	}
	s.Rule = fmt.Sprintf("exhaustive: every list size n in [0,%d] x configured count w in [0,%d] x permissible p in [0,n+1] x semi-sync on/off through the real SwitchHelper; non-trivial = n>=2 and w>=1 (the list has a replica and acknowledgements are configured); tuples are visited exactly once so they are distinct by construction", bound, bound)
	s.Exhaustive = true
	s.Extra["bound_n"] = bound
	s.Extra["bound_w"] = bound
	if s.Replaying() {
		s.Check(t, vs.CheckOpts{}, func(c *vs.Case) {
			n, w := c.Src.Int("n", 0, 1<<20), c.Src.Int("w", 0, math.MaxInt)
			p, semi := c.Src.Int("p", 0, 1<<21), c.Src.Bool("semi")
			if msg := c12Oracle(mkList(n), w, p, semi); msg != "" {
				c.Violation("c12", "%s", msg)
			}
		})
		return
	}
	list := mkList(bound)
	for n := 0; n <= bound; n++ {
		l := list[:n]
		for w := 0; w <= bound; w++ {
			cnt := 0
			for p := 0; p <= n+1; p++ {
				for _, semi := range []bool{true, false} {
					cnt++
					if msg := c12Oracle(l, w, p, semi); msg != "" {
						if s.EnumViolation("c12", msg, c12Script(n, w, p, semi)) {
							t.Fatalf("VIOLATION C12: %s", msg)
						}
					}
				}
			}
			nt := 0
			if n >= 2 && w >= 1 {
				nt = cnt
			}
			s.CountEnum(cnt, nt, "")
		}
	}
	s.AddSample(map[string]any{"n": 3, "w": 1, "p": 2, "semi": true, "required": 1, "quorum": 2})
	s.AddSample(map[string]any{"n": bound, "w": bound, "p": bound + 1, "semi": false})
}

// TestVerifC12Random samples large n and w up to MaxInt (overflow corner).
func TestVerifC12Random(t *testing.T) {
	s := vs.NewStats(t, "C12")
	s.Rule = "random: n in [0,5000] (list really built), w in [0,MaxInt] biased to boundary values, p in [0,n+2]; non-trivial = n>=2 and w>=1; distinct by hash of the drawn tuple"
	s.Check(t, vs.CheckOpts{}, func(c *vs.Case) {
		n := c.Src.Int("n", 0, 5000)
		w := c.Src.Int("w", 0, math.MaxInt)
		p := c.Src.Int("p", 0, 5002)
		semi := c.Src.Bool("semi")
		if n >= 2 && w >= 1 {
			c.NonTrivial()
		}
		if w > n {
			c.Class("w>n")
		}
		if msg := c12Oracle(mkList(n), w, p, semi); msg != "" {
			c.Violation("c12", "%s", msg)
		}
	})
}
