//go:build verif

package gtids

import (
	"fmt"
	"strings"
	"testing"

	gomysql "github.com/go-mysql-org/go-mysql/mysql"
	"github.com/google/uuid"

	vs "github.com/yandex/mysync/internal/verifsim"
)

// c13Oracle checks every clause of C13 that concerns a pair of sets.
func c13Oracle(rep, src vs.RefSet, repG, srcG GTIDSet, masterUUID string) string {
	repMinus, srcMinus := vs.RefMinus(rep, src), vs.RefMinus(src, rep)
	subset := vs.RefEmpty(repMinus)
	if got := IsSlaveBehindOrEqual(repG, srcG); got != subset {
		return fmt.Sprintf("IsSlaveBehindOrEqual=%v but subset=%v", got, subset)
	}
	if got := IsSlaveAhead(repG, srcG); got != !subset {
		return fmt.Sprintf("IsSlaveAhead=%v but subset=%v", got, subset)
	}
	mu := uuid.MustParse(masterUUID)
	sb := IsSplitBrained(repG, srcG, mu)
	if subset && sb {
		return "replica is a subset of the master but reported split-brained"
	}
	foreign := false
	for key := range repMinus {
		if !strings.HasPrefix(key, masterUUID+"|") {
			foreign = true
		}
	}
	if foreign && !sb {
		return fmt.Sprintf("replica holds %v which the master lacks and which did not originate on master %s, but not reported split-brained", repMinus, masterUUID)
	}
	text, err := GTIDDiff(repG, srcG)
	if err != nil {
		return "GTIDDiff error: " + err.Error()
	}
	var wantSrc, wantRep string
	switch {
	case text == "replica gtid equal source":
	case strings.HasPrefix(text, "split brain! source ahead on: "):
		p := strings.SplitN(strings.TrimPrefix(text, "split brain! source ahead on: "), "; replica ahead on: ", 2)
		if len(p) != 2 {
			return "unparsable diff text: " + text
		}
		wantSrc, wantRep = p[0], p[1]
	case strings.HasPrefix(text, "source ahead on: "):
		wantSrc = strings.TrimPrefix(text, "source ahead on: ")
	case strings.HasPrefix(text, "replica ahead on: "):
		wantRep = strings.TrimPrefix(text, "replica ahead on: ")
	default:
		return "unknown diff text: " + text
	}
	parse := func(s string) (vs.RefSet, string) {
		if s == "" {
			return vs.RefSet{}, ""
		}
		g, err := gomysql.ParseGTIDSet(gomysql.MySQLFlavor, s)
		if err != nil {
			return nil, "diff text names an unparsable set " + s
		}
		return vs.FromLib(g), ""
	}
	gs, e1 := parse(wantSrc)
	gr, e2 := parse(wantRep)
	if e1+e2 != "" {
		return e1 + e2
	}
	if !vs.RefEqual(gs, srcMinus) {
		return fmt.Sprintf("diff text %q names source-ahead set %v, real source\\replica is %v", text, gs, srcMinus)
	}
	if !vs.RefEqual(gr, repMinus) {
		return fmt.Sprintf("diff text %q names replica-ahead set %v, real replica\\source is %v", text, gr, repMinus)
	}
	return ""
}

func subsetOf(elems [][2]any, mask int) vs.RefSet {
	r := vs.RefSet{}
	for i, e := range elems {
		if mask&(1<<i) != 0 {
			g := int64(e[1].(int))
			r[e[0].(string)] = append(r[e[0].(string)], vs.RefIv{g, g})
		}
	}
	return r
}

func c13Universe(name string) [][2]any {
	var el [][2]any
	switch name {
	case "2uuid-gno4":
		for _, u := range vs.GTIDUUIDs[:2] {
			for g := 1; g <= 4; g++ {
				el = append(el, [2]any{vs.RefKey(u, ""), g})
			}
		}
	case "2uuid-gno6":
		for _, u := range vs.GTIDUUIDs[:2] {
			for g := 1; g <= 6; g++ {
				el = append(el, [2]any{vs.RefKey(u, ""), g})
			}
		}
	case "1uuid-tag-gno3":
		for _, t := range vs.GTIDTags[:2] {
			for g := 1; g <= 3; g++ {
				el = append(el, [2]any{vs.RefKey(vs.GTIDUUIDs[0], t), g})
			}
		}
	case "2uuid-tag-gno2":
		for _, u := range vs.GTIDUUIDs[:2] {
			for _, t := range vs.GTIDTags[:2] {
				for g := 1; g <= 2; g++ {
					el = append(el, [2]any{vs.RefKey(u, t), g})
				}
			}
		}
	}
	return el
}

func c13RunPair(uni string, ma, mb, mu int) (string, vs.RefSet, vs.RefSet) {
	el := c13Universe(uni)
	a, b := subsetOf(el, ma), subsetOf(el, mb)
	ga, gb := ParseGtidSet(vs.Render(a, false)), ParseGtidSet(vs.Render(b, false))
	return c13Oracle(a, b, ga, gb, vs.GTIDUUIDs[mu]), a, b
}

// TestVerifC13Exhaustive: all pairs of subsets of small universes x master UUID.
func TestVerifC13Exhaustive(t *testing.T) {
	s := vs.NewStats(t, "C13")
	unis := []string{"2uuid-gno4", "1uuid-tag-gno3", "2uuid-tag-gno2"}
	if vs.Tier() == "thorough" {
		unis = append(unis, "2uuid-gno6")
	}
	s.Exhaustive = true
	s.Rule = "exhaustive: every ordered pair (replica, source) of subsets of the universes " + strings.Join(unis, ", ") + " (uuid x optional tag x transaction number) x each of 3 master UUIDs (two inside the universe, one foreign), rendered as MySQL prints GTID sets and parsed by the real ParseGtidSet; oracle = interval-membership reference; non-trivial = neither set empty and the sets differ; pairs are enumerated once, hence distinct"
	if s.Replaying() {
		s.Check(t, vs.CheckOpts{}, func(c *vs.Case) {
			uni := c.Src.Pick("universe", "2uuid-gno4", "1uuid-tag-gno3", "2uuid-tag-gno2", "2uuid-gno6")
			ma, mb, mu := c.Src.Int("replica_mask", 0, 1<<12), c.Src.Int("source_mask", 0, 1<<12), c.Src.Int("master_uuid", 0, 2)
			if msg, a, b := c13RunPair(uni, ma, mb, mu); msg != "" {
				c.Violation("c13-pair", "%s; replica=%v source=%v master_uuid=%s", msg, a, b, vs.GTIDUUIDs[mu])
			}
		})
		return
	}
	for _, uni := range unis {
		el := c13Universe(uni)
		n := 1 << len(el)
		refs := make([]vs.RefSet, n)
		libs := make([]GTIDSet, n)
		for m := 0; m < n; m++ {
			refs[m] = subsetOf(el, m)
			libs[m] = ParseGtidSet(vs.Render(refs[m], false))
			if !vs.RefEqual(vs.FromLib(libs[m]), refs[m]) {
				t.Fatalf("harness: vs.Render/parse round trip differs for %v", refs[m])
			}
		}
		for ma := 0; ma < n; ma++ {
			cnt, nt := 0, 0
			for mb := 0; mb < n; mb++ {
				for mu := 0; mu < 3; mu++ {
					cnt++
					if ma != 0 && mb != 0 && ma != mb {
						nt++
					}
					if msg := c13Oracle(refs[ma], refs[mb], libs[ma], libs[mb], vs.GTIDUUIDs[mu]); msg != "" {
						full := fmt.Sprintf("%s; replica=%v source=%v master_uuid=%s", msg, refs[ma], refs[mb], vs.GTIDUUIDs[mu])
						if s.EnumViolation("c13-pair", full, []vs.Draw{{L: "universe", V: uni}, {L: "replica_mask", V: ma}, {L: "source_mask", V: mb}, {L: "master_uuid", V: mu}}) {
							t.Fatalf("VIOLATION C13: %s", full)
						}
					}
				}
			}
			s.CountEnum(cnt, nt, "universe:"+uni)
		}
		s.AddSample(map[string]any{"universe": uni, "replica": vs.Render(refs[n/3], false), "source": vs.Render(refs[n/2+1], false), "master_uuid": vs.GTIDUUIDs[1]})
	}
}

// TestVerifC13Random: random large sets with gaps, tags, un-normalised spellings.
func TestVerifC13Random(t *testing.T) {
	s := vs.NewStats(t, "C13")
	s.Rule = "random: source set over up to 3 UUIDs x optional tag with 1-6 intervals per key and transaction numbers up to 2^40; the replica set is independent or derived (equal / sub-intervals dropped / extended / both); both rendered normalised (MySQL style, ',\\n') or un-normalised (unsorted, overlapping, repeated UUID) and parsed by the real ParseGtidSet; non-trivial = neither set empty and they differ; distinct by hash of draws"
	s.Check(t, vs.CheckOpts{}, func(c *vs.Case) {
		messy := c.Src.Bool("messy")
		src := vs.GenRefSet(c, "source", messy)
		rep := vs.Derive(c, src, "replica")
		mu := c.Src.Int("master_uuid", 0, 2)
		ts, tr := vs.Render(src, messy), vs.Render(rep, messy && c.Src.Bool("replica_messy"))
		gs, gr := ParseGtidSet(ts), ParseGtidSet(tr)
		if !vs.RefEqual(vs.FromLib(gs), src) || !vs.RefEqual(vs.FromLib(gr), rep) {
			c.Violation("c13-parse", "parsing %q / %q does not give the rendered sets %v / %v", ts, tr, src, rep)
		}
		sub, sup := vs.RefEmpty(vs.RefMinus(rep, src)), vs.RefEmpty(vs.RefMinus(src, rep))
		switch {
		case sub && sup:
			c.Class("equal")
		case sub:
			c.Class("replica-behind")
		case sup:
			c.Class("replica-ahead")
		default:
			c.Class("incomparable")
		}
		if !vs.RefEmpty(vs.RefNorm(src)) && !vs.RefEmpty(vs.RefNorm(rep)) && !(sub && sup) {
			c.NonTrivial()
		}
		c.Sample(map[string]any{"source": ts, "replica": tr, "master_uuid": vs.GTIDUUIDs[mu]})
		if msg := c13Oracle(rep, src, gr, gs, vs.GTIDUUIDs[mu]); msg != "" {
			c.Violation("c13-pair", "%s; replica=%q source=%q master_uuid=%s", msg, tr, ts, vs.GTIDUUIDs[mu])
		}
	})
}
