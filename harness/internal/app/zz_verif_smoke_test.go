//go:build verif

package app

import (
	"fmt"
	"os"
	"testing"
	"time"

	"github.com/rs/zerolog"

	vs "github.com/yandex/mysync/internal/verifsim"
)

// TestVerifSimSmoke: calibration of the simulation - from a cold start the real code must
// elect a manager, bring the master online and writable and publish the active list.
func TestVerifSimSmoke(t *testing.T) {
	s := vs.NewStats(t, "SMOKE")
	s.Check(t, vs.CheckOpts{Bubble: true}, func(c *vs.Case) {
		n := c.Src.Int("hosts", 2, 4)
		ha := []string{"h1", "h2", "h3", "h4"}[:n]
		dir, _ := os.MkdirTemp("", "verifsim")
		defer os.RemoveAll(dir)
		lvl := zerolog.Disabled
		if os.Getenv("VERIF_DEBUG") != "" {
			lvl = zerolog.InfoLevel
		}
		sm := newSim(c, c.RTOrT(t), dir, simOpts{HA: ha, LogLevel: lvl})
		defer func() {
			sm.close()
			if g := sm.leftovers(); len(g) > 0 {
				t.Logf("LEFTOVER: %v", g)
			}
		}()
		t0 := time.Now()
		ok := sm.converge(30)
		if os.Getenv("VERIF_DEBUG") != "" {
			for _, st := range sm.w.StmtsSince(0) {
				fmt.Printf("%s %s->%s [%s] %s => %s\n", st.At.Format("15:04:05.000"), st.Issuer, st.Target, st.Class, st.Query, st.Outcome)
			}
			for p, v := range sm.zk.Dump() {
				fmt.Println("ZK", p, v.Data)
			}
			for _, p := range sm.all {
				fmt.Println("PROC", p.id, p.app.state, p.ticks)
				fmt.Println(p.logs.String())
			}
		}
		if u := sm.unknownStatements(); len(u) > 0 {
			c.Violation("smoke-unknown-statement", "fake MySQL did not recognise: %v", u)
		}
		if len(sm.panics) > 0 {
			c.Violation("smoke-panic", "%v", sm.panics)
		}
		if !ok {
			c.Violation("smoke-no-convergence", "cluster of %d did not converge from a cold start in 30 rounds; master key %q active %v", n, sm.masterKey(), sm.activeNodes())
		}
		c.Tracef("converged after %v", time.Since(t0))
		c.NonTrivial()
	})
}
