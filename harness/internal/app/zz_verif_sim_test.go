//go:build verif

package app

import (
	"bytes"
	"context"
	"encoding/json"
	"fmt"
	"net"
	"os"
	"path/filepath"
	"runtime/debug"
	"sort"
	"strconv"
	"strings"
	"sync"
	"sync/atomic"
	"testing/synctest"
	"time"

	mysql_driver "github.com/go-sql-driver/mysql"
	"github.com/rs/zerolog"

	nodestate "github.com/yandex/mysync/internal/app/node_state"
	"github.com/yandex/mysync/internal/app/resetup"
	"github.com/yandex/mysync/internal/config"
	"github.com/yandex/mysync/internal/dcs"
	"github.com/yandex/mysync/internal/mysql"
	vs "github.com/yandex/mysync/internal/verifsim"
)

// The cluster simulation: real *App instances (built field by field as NewApp +
// Run do) over the fake ZooKeeper and the fake MySQL servers, inside a synctest
// bubble. The harness owns the schedule: a step starts one loop body of one
// process and waits until every goroutine of the bubble is durably blocked.

const simNS = "/test"

type simOpts struct {
	HA             []string          // HA host names (first is the initial master)
	Cascade        map[string]string // cascade host -> stream_from
	Ver            [3]int
	SessionTimeout time.Duration
	Cfg            map[string]string // top-level YAML overrides (key -> literal value)
	LogLevel       zerolog.Level
}

type simPanic struct {
	Proc  string
	Step  string
	Value string
	Stack string
}

type simProc struct {
	id       string // "h1#1"
	host     string
	inc      int
	port     int
	app      *App
	cfg      *config.Config
	logs     *bytes.Buffer
	dead     bool
	inflight map[string]chan struct{}
	logFile  string
	maxPos   int64
	ticks    int
	onDone   func()
}

type sim struct {
	excuseWritesOn map[string]bool // hosts whose acknowledged commits may be lost by design (asynchronous replication + crash)
	c              *vs.Case
	t              vs.Failer
	w              *vs.MyWorld
	zk             *vs.ZKServer
	opts           simOpts
	dir            string
	procs          map[string]*simProc // current incarnation per host
	all            []*simProc
	ports          map[int]*simProc
	mu             sync.Mutex
	panics         []simPanic
	nextInc        map[string]int
	startNo        map[string]int
	found          []finding
	closed         bool
	healthAt       map[*tickRec]*nodestate.NodeState
	regHA          map[*tickRec][]string
	lastSwitchAt   map[*tickRec]string
	stateLoops     atomic.Int64
	lockEvents     []lockEvent
	traceFrom      int
	ackerWindow    bool
}

var (
	simDialOnce sync.Once
	curSim      atomic.Pointer[sim]
)

func simRegisterDial() {
	simDialOnce.Do(func() {
		_ = mysql_driver.SetLogger(nopLogger{})
		mysql_driver.RegisterDialContext("tcp", func(ctx context.Context, addr string) (net.Conn, error) {
			s := curSim.Load()
			if s == nil {
				return nil, fmt.Errorf("no simulation running")
			}
			hn, port, _ := net.SplitHostPort(addr)
			pn, _ := strconv.Atoi(port)
			s.mu.Lock()
			p := s.ports[pn]
			s.mu.Unlock()
			if p == nil {
				return nil, fmt.Errorf("unknown issuer port %d", pn)
			}
			return s.w.Dial(ctx, p.id, hn)
		})
	})
}

// tracingDCS records every answer the coordination layer gives to AcquireLock (the field
// app.dcs is an interface, so the real zkDCS is wrapped, not changed).
type tracingDCS struct {
	dcs.DCS
	s    *sim
	proc string
}

type lockEvent struct {
	proc string
	at   time.Time
	ok   bool
	stmt int // length of the statement log when the answer was given
	mut  int // length of the ZooKeeper mutation log
}

func (t *tracingDCS) AcquireLock(path string) bool {
	ok := t.DCS.AcquireLock(path)
	if path == pathManagerLock {
		ev := lockEvent{t.proc, time.Now(), ok, t.s.w.StmtLen(), t.s.zk.MutLen()}
		t.s.mu.Lock()
		t.s.lockEvents = append(t.s.lockEvents, ev)
		t.s.mu.Unlock()
	}
	return ok
}

type nopLogger struct{}

func (nopLogger) Print(v ...any) {}

func uuidFor(i int) string { return fmt.Sprintf("00000000-0000-0000-0000-%012x", 0xa0+i) }

// newSim builds servers (all read-only, offline, replicas pointing at the first HA
// host, as a freshly provisioned cluster) and registers the hosts in ZooKeeper.
func newSim(c *vs.Case, t vs.Failer, dir string, o simOpts) *sim {
	simRegisterDial()
	if o.SessionTimeout == 0 {
		o.SessionTimeout = 3 * time.Second
	}
	if o.Ver == [3]int{} {
		o.Ver = [3]int{8, 0, 32}
	}
	s := &sim{c: c, t: t, w: vs.NewMyWorld(), zk: vs.NewZKServer(), opts: o, dir: dir, procs: map[string]*simProc{}, ports: map[int]*simProc{}, nextInc: map[string]int{}, startNo: map[string]int{},
		healthAt: map[*tickRec]*nodestate.NodeState{}, regHA: map[*tickRec][]string{}, lastSwitchAt: map[*tickRec]string{}}
	curSim.Store(s)
	names := append([]string{}, o.HA...)
	var casc []string
	for h := range o.Cascade {
		casc = append(casc, h)
	}
	sort.Strings(casc)
	names = append(names, casc...)
	t0 := time.Now().Add(-10 * time.Minute)
	for i, n := range names {
		h := s.w.AddHost(n, uuidFor(i), o.Ver)
		h.SeedTxns(uuidFor(0), 1, 5, t0, 300)
		if i > 0 {
			src := o.HA[0]
			if sf, ok := o.Cascade[n]; ok {
				src = sf
			}
			h.Chan = vs.NewChannel(src, true)
		}
		_ = os.MkdirAll(filepath.Join(dir, n), 0o755)
		s.writeHostFile(n, "usedspace", "10")
		s.writeHostFile(n, "readonly", "false")
		s.setDaemonFiles(n, 0, false)
	}
	s.zk.RawSet(simNS, []byte{})
	s.zk.RawSet(simNS+"/"+pathHANodes, []byte("null"))
	s.zk.RawSet(simNS+"/"+pathCascadeNodesPrefix, []byte("null"))
	for _, n := range o.HA {
		s.zk.RawSet(simNS+"/"+pathHANodes+"/"+n, []byte(`{"priority":0}`))
	}
	for _, n := range casc {
		b, _ := json.Marshal(mysql.CascadeNodeConfiguration{StreamFrom: o.Cascade[n]})
		s.zk.RawSet(simNS+"/"+pathCascadeNodesPrefix+"/"+n, b)
	}
	for _, n := range names {
		s.startProc(n)
	}
	return s
}

func (s *sim) writeHostFile(host, name, content string) {
	_ = os.WriteFile(filepath.Join(s.dir, host, name), []byte(content), 0o644)
}

func (s *sim) hostFileExists(host, name string) bool {
	_, err := os.Stat(filepath.Join(s.dir, host, name))
	return err == nil
}

func (s *sim) removeHostFile(host, name string) { _ = os.Remove(filepath.Join(s.dir, host, name)) }

func (s *sim) yaml(host string, port int, zkName string) string {
	d := filepath.Join(s.dir, host)
	base := map[string]string{
		"loglevel":                      "Debug",
		"hostname":                      host,
		"lockfile":                      filepath.Join(d, "lock"),
		"info_file":                     filepath.Join(d, "info"),
		"emergefile":                    filepath.Join(d, "emerge"),
		"resetupfile":                   filepath.Join(d, "resetup"),
		"maintenancefile":               filepath.Join(d, "maintenance"),
		"db_timeout":                    "5s",
		"db_lost_check_timeout":         "1s",
		"tick_interval":                 "2s",
		"healthcheck_interval":          "5s",
		"dcs_wait_timeout":              "10s",
		"failover":                      "true",
		"failover_cooldown":             "60m",
		"failover_delay":                "0s",
		"inactivation_delay":            "5s",
		"semi_sync":                     "true",
		"test_disk_usage_file":          filepath.Join(d, "usedspace"),
		"test_filesystem_readonly_file": filepath.Join(d, "readonly"),
		"critical_disk_usage":           "95",
		"master_first_adjust_ss_order":  "true",
		"exclude_users":                 "[repl, admin, monitor, event_scheduler]",
		"replication_repair_cooldown":   "10s",
		"dsn_settings":                  "\"?autocommit=1&sql_log_off=1&interpolateParams=true\"",
		"manager_switchover":            "false",
	}
	for k, v := range s.opts.Cfg {
		base[k] = v
	}
	keys := make([]string, 0, len(base))
	for k := range base {
		keys = append(keys, k)
	}
	sort.Strings(keys)
	var sb strings.Builder
	for _, k := range keys {
		fmt.Fprintf(&sb, "%s: %s\n", k, base[k])
	}
	fmt.Fprintf(&sb, "zookeeper:\n  hostname: \"%s\"\n  session_timeout: %s\n  namespace: %s\n  hosts: [ \"127.0.0.1:2181\" ]\n  backoff_rand_factor: 0\n", zkName, s.opts.SessionTimeout, simNS)
	fmt.Fprintf(&sb, "mysql:\n  user: admin\n  password: admin_pwd\n  replication_user: repl\n  replication_password: repl_pwd\n  port: %d\n  pid_file: %s\n  error_log: %s\n",
		port, filepath.Join(d, "mysqld.pid"), filepath.Join(d, "error.log"))
	return sb.String()
}

// startProc starts a new incarnation of mysync on host.
func (s *sim) startProc(host string) *simProc {
	s.nextInc[host]++
	inc := s.nextInc[host]
	s.mu.Lock()
	port := 3300 + len(s.all)
	s.mu.Unlock()
	id := fmt.Sprintf("%s#%d", host, inc)
	cfgPath := filepath.Join(s.dir, host, fmt.Sprintf("mysync-%d.yaml", inc))
	if err := os.WriteFile(cfgPath, []byte(s.yaml(host, port, id)), 0o644); err != nil {
		s.t.Fatalf("write config: %v", err)
	}
	cfg, err := config.ReadFromFile(cfgPath)
	if err != nil {
		s.t.Fatalf("harness: config rejected: %v\n%s", err, s.yaml(host, port, id))
	}
	p := &simProc{id: id, host: host, inc: inc, port: port, cfg: cfg, logs: &bytes.Buffer{}, inflight: map[string]chan struct{}{}}
	lg := zerolog.New(zerolog.SyncWriter(p.logs)).Level(s.opts.LogLevel)
	if s.opts.LogLevel == zerolog.Disabled {
		lg = zerolog.Nop()
	}
	ext, err := mysql.NewExternalReplication(cfg.ExternalReplicationType, &lg, cfg.ExternalReplicationChannel)
	if err != nil {
		s.t.Fatalf("external replication: %v", err)
	}
	// --- NewApp
	a := &App{
		state:               stateFirstRun,
		config:              cfg,
		logger:              &lg,
		t:                   NewTimings(),
		replRepairState:     make(map[string]*ReplicationRepairState),
		slaveReadPositions:  make(map[string]string),
		externalReplication: ext,
		switchHelper:        mysql.NewSwitchHelper(cfg),
		offlineModeFilter:   NewOfflineModeFilter(cfg, &lg),
	}
	a.lagResetupper = resetup.NewLagResetupper(&lg, a, cfg.ResetupHostLag.Seconds())
	s.mu.Lock()
	s.ports[port] = p
	s.all = append(s.all, p)
	s.procs[host] = p
	s.mu.Unlock()
	s.w.SetProc(id, host)
	// --- Run: connectDCS, newDBCluster
	d, err := dcs.NewZookeeperOverDialer(&cfg.Zookeeper, &lg, s.zk.Dialer(id))
	if err != nil {
		s.t.Fatalf("dcs: %v", err)
	}
	td := &tracingDCS{DCS: d, s: s, proc: id}
	a.dcs = td
	a.appDCS = NewAppDCS(td, cfg, &lg)
	a.cluster, err = mysql.NewCluster(cfg, &lg, td)
	if err != nil {
		s.t.Fatalf("cluster: %v", err)
	}
	p.app = a
	return p
}

// killProc is SIGKILL of a mysync process: every connection vanishes without a
// close handshake, nothing it does afterwards reaches anything.
func (s *sim) killProc(p *simProc) {
	if p.dead {
		return
	}
	p.dead = true
	s.w.KillProc(p.id)
	l := s.zk.Link(p.id)
	l.Set(func(l *vs.ZKLink) { l.Refuse = true })
	l.Sever()
	if s.procs[p.host] == p {
		delete(s.procs, p.host)
	}
}

func (s *sim) recordPanic(p *simProc, step string, r any) {
	s.mu.Lock()
	s.panics = append(s.panics, simPanic{p.id, step, fmt.Sprint(r), string(debug.Stack())})
	s.mu.Unlock()
}

func (s *sim) body(p *simProc, kind string) func() {
	a := p.app
	switch kind {
	case "tick":
		return func() {
			p.ticks++
			handlers := map[appState]func() appState{stateFirstRun: a.stateFirstRun, stateManager: a.stateManager,
				stateCandidate: a.stateCandidate, stateLost: a.stateLost, stateMaintenance: a.stateMaintenance}
			// Run() re-runs the handlers without sleeping while the state changes. A candidate
			// that sees 'should_leave' before the manager has removed the maintenance record
			// cycles Candidate -> Maintenance -> Candidate at full speed until the manager acts;
			// in a stepper nobody else runs meanwhile, so the harness yields after a few
			// transitions (the next tick continues where this one stopped).
			for i := 0; i < 8; i++ {
				next := handlers[a.state]()
				if next == a.state {
					break
				}
				a.state = next
				if i == 7 {
					s.stateLoops.Add(1)
				}
			}
		}
	case "health":
		return func() {
			hc := a.getLocalNodeState()
			p.logFile, p.maxPos = hc.UpdateBinlogStatus(p.logFile, p.maxPos)
			_ = a.SetHealthState(a.config.Hostname, hc)
		}
	case "recovery":
		return func() {
			a.checkRecovery()
			a.checkCrashRecovery()
			a.SetResetupStatus()
		}
	case "lagcheck":
		return func() {
			if a.doesResetupFileExist() {
				return
			}
			if a.lagResetupper.CheckNeedResetup(a.cluster) {
				a.writeResetupFile()
			}
		}
	}
	panic("unknown step kind " + kind)
}

// start launches one loop body of a process unless the same loop is still busy
// (each loop of the real daemon is sequential). It returns after the bubble is
// quiescent; the step may still be in flight (blocked in a virtual sleep).
func (s *sim) start(p *simProc, kind string) (started, done bool) {
	// At most one loop body per process is in flight: the loops of one daemon share
	// mysql.Cluster's mutex, which UpdateHostsInfo holds across ZooKeeper requests; a second
	// body blocking on that mutex is not "durably blocked" for synctest, so virtual time
	// could never advance to release the first. Running the bodies of one process one
	// after another is a legal (if restricted) schedule; see DESIGN.md limits.
	for k := range p.inflight {
		if s.busy(p, k) {
			return false, false
		}
	}
	ch := make(chan struct{})
	p.inflight[kind] = ch
	f := s.body(p, kind)
	onDone := p.onDone
	p.onDone = nil
	go func() {
		defer close(ch)
		defer func() {
			if onDone != nil {
				onDone() // at the instant the body returns, not when the harness next looks
			}
		}()
		defer func() {
			if r := recover(); r != nil {
				s.recordPanic(p, kind, r)
			}
		}()
		f()
	}()
	synctest.Wait()
	select {
	case <-ch:
		delete(p.inflight, kind)
		return true, true
	default:
		return true, false
	}
}

func (s *sim) busy(p *simProc, kind string) bool {
	ch := p.inflight[kind]
	if ch == nil {
		return false
	}
	select {
	case <-ch:
		delete(p.inflight, kind)
		return false
	default:
		return true
	}
}

func (s *sim) anyBusy(p *simProc) bool {
	for k := range p.inflight {
		if s.busy(p, k) {
			return true
		}
	}
	return false
}

// run executes a step to completion, advancing virtual time while it sleeps.
func (s *sim) run(p *simProc, kind string) {
	for i := 0; s.anyBusy(p); i++ {
		s.advance(time.Second)
		if i > 4000 {
			s.t.Fatalf("harness: previous step of %s never finished", p.id)
		}
	}
	s.start(p, kind)
	for i := 0; s.busy(p, kind); i++ {
		s.advance(time.Second)
		if i > 4000 {
			s.t.Fatalf("harness: %s of %s did not finish within 4000 virtual seconds", kind, p.id)
		}
	}
}

func (s *sim) advance(d time.Duration) {
	s.c.S.Progress()
	time.Sleep(d)
	synctest.Wait()
}

func (s *sim) alive() []*simProc {
	var ps []*simProc
	hosts := make([]string, 0, len(s.procs))
	for h := range s.procs {
		hosts = append(hosts, h)
	}
	sort.Strings(hosts)
	for _, h := range hosts {
		ps = append(ps, s.procs[h])
	}
	return ps
}

// round runs one tick + health (+ recovery) of every live process, then advances by the tick interval.
func (s *sim) round(recovery bool) {
	for _, p := range s.alive() {
		s.run(p, "health")
	}
	for _, p := range s.alive() {
		s.run(p, "tick")
		if recovery {
			s.run(p, "recovery")
		}
	}
	s.advance(2 * time.Second)
}

// zkGet reads a key below the namespace straight from the server.
func (s *sim) zkGet(key string) (string, bool) { return s.zk.Get(simNS + "/" + key) }

func (s *sim) zkJSON(key string, dest any) bool {
	v, ok := s.zkGet(key)
	if !ok {
		return false
	}
	return json.Unmarshal([]byte(v), dest) == nil
}

func (s *sim) masterKey() string {
	var m string
	s.zkJSON(pathMasterNode, &m)
	return m
}

func (s *sim) activeNodes() []string {
	var a []string
	s.zkJSON(pathActiveNodes, &a)
	return a
}

func (s *sim) manager() *simProc {
	v, ok := s.zkGet(pathManagerLock)
	if !ok {
		return nil
	}
	var o dcs.LockOwner
	if json.Unmarshal([]byte(v), &o) != nil {
		return nil
	}
	for _, p := range s.all {
		if p.id == o.Hostname && !p.dead {
			return p
		}
	}
	return nil
}

// converged: exactly one writable online master equal to the master key, every other HA
// host a read-only replica of it with both threads running, active list = all HA hosts.
func (s *sim) converged() bool {
	s.w.Lock()
	defer s.w.Unlock()
	m := s.masterKey()
	mh := s.w.Hosts[m]
	if mh == nil || !mh.Writable() || mh.Chan != nil {
		return false
	}
	for _, n := range s.opts.HA {
		if n == m {
			continue
		}
		h := s.w.Hosts[n]
		if !h.Up || !h.RO || h.Offline || h.Chan == nil || h.Chan.Source != m || !h.Chan.IOConnected || !h.Chan.SQLDesired {
			return false
		}
		if s.cfgBool("semi_sync") && !h.Chan.IOSemi {
			return false
		}
	}
	a := s.activeNodes()
	if len(a) != len(s.opts.HA) {
		return false
	}
	if s.cfgBool("semi_sync") && len(s.opts.HA) > 1 && !mh.SSMaster {
		return false
	}
	return true
}

func (s *sim) cfgBool(key string) bool {
	for _, p := range s.all {
		switch key {
		case "semi_sync":
			return p.cfg.SemiSync
		}
	}
	return false
}

// converge runs full rounds from the current state until converged (calibration: a
// failure here is a harness problem, not a verdict).
func (s *sim) converge(maxRounds int) bool {
	for i := 0; i < maxRounds; i++ {
		s.round(true)
		if s.converged() {
			return true
		}
	}
	return false
}

// close winds everything down so that the bubble can end.
func (s *sim) close() {
	if s.closed {
		return
	}
	s.closed = true
	// every daemon panic met by any simulation is classified by its site, so that the sites the
	// other properties' histories reach can be compared with what the C20 check lists
	s.mu.Lock()
	for _, p := range s.panics {
		s.c.Class("daemon-panic@" + c20Site(p.Stack))
	}
	s.mu.Unlock()
	for i := 0; i < 400; i++ {
		busy := false
		for _, p := range s.all {
			for k := range p.inflight {
				if s.busy(p, k) {
					busy = true
				}
			}
		}
		if !busy {
			break
		}
		s.advance(10 * time.Second)
	}
	s.w.Stop()
	for _, p := range s.all {
		p.app.cluster.VerifCloseAll()
		p.app.dcs.Close()
	}
	s.zk.Stop()
	s.advance(3 * time.Second)
	curSim.CompareAndSwap(s, nil)
}

// leftovers reports goroutines still durably blocked after close (C20's leak oracle).
func (s *sim) leftovers() []string { return vs.DurablyBlocked() }

// unknownStatements: statements the fake MySQL did not recognise (calibration failure).
func (s *sim) unknownStatements() []string {
	s.w.Lock()
	defer s.w.Unlock()
	return append([]string(nil), s.w.Unknown...)
}

// ---------------------------------------------------------------- operator model

func (s *sim) opSwitch(from, to string, failover bool, by string) bool {
	if _, ok := s.zkGet(pathCurrentSwitch); ok {
		return false
	}
	sw := Switchover{From: from, To: to, InitiatedBy: by, InitiatedAt: time.Now(), Cause: CauseManual, MasterTransition: SwitchoverTransition}
	if failover {
		sw.MasterTransition = FailoverTransition
	}
	b, _ := json.Marshal(&sw)
	s.zk.RawSet(simNS+"/"+pathCurrentSwitch, b)
	return true
}

func (s *sim) opAbort() { s.zk.RawDelete(simNS + "/" + pathCurrentSwitch) }

func (s *sim) opMaintenance(mode MaintenanceMode) bool {
	if _, ok := s.zkGet(pathMaintenance); ok {
		return false
	}
	b, _ := json.Marshal(&Maintenance{InitiatedBy: "operator", InitiatedAt: time.Now(), Mode: mode})
	s.zk.RawSet(simNS+"/"+pathMaintenance, b)
	return true
}

func (s *sim) opLeaveMaintenance() bool {
	var m Maintenance
	if !s.zkJSON(pathMaintenance, &m) {
		return false
	}
	m.ShouldLeave = true
	b, _ := json.Marshal(&m)
	s.zk.RawSet(simNS+"/"+pathMaintenance, b)
	return true
}

// healthOf returns the health record of host as stored in ZooKeeper.
func (s *sim) healthOf(host string) *nodestate.NodeState {
	var ns nodestate.NodeState
	if !s.zkJSON(pathHealthPrefix+"/"+host, &ns) {
		return nil
	}
	return &ns
}

// ---------------------------------------------------------------- mysqld life cycle (files mysync reads locally)

var simPids = []int{os.Getpid(), os.Getppid(), 1}

// setDaemonFiles writes the pid file (a real pid, so that the start time mysync derives
// changes with every restart) and the error log (with or without a crash-recovery line
// dated after any start time).
func (s *sim) setDaemonFiles(host string, startNo int, crashed bool) {
	s.writeHostFile(host, "mysqld.pid", strconv.Itoa(simPids[startNo%len(simPids)]))
	log := "2000-01-01T00:00:00.000000+00:00 0 [Note] mysqld: ready for connections.\n"
	if crashed {
		log = "2100-01-01T00:00:00.000000+00:00 0 [Note] [MY-012551] [InnoDB] Starting crash recovery.\n" + log
	}
	s.writeHostFile(host, "error.log", log)
}

func (s *sim) crashMySQL(host string) { s.w.Crash(host) }

func (s *sim) startMySQL(host string, afterCrash bool) {
	s.startNo[host]++
	s.setDaemonFiles(host, s.startNo[host], afterCrash)
	s.w.Start(host)
}

// resetupTool is the external tool of the Jepsen image: when mysync left a resetup file, the
// node is rebuilt from the recorded master and the file removed.
func (s *sim) resetupTool(host string) bool {
	if !s.hostFileExists(host, "resetup") {
		return false
	}
	m := s.masterKey()
	if m == "" || m == host {
		return false
	}
	s.startNo[host]++
	s.setDaemonFiles(host, s.startNo[host], false)
	if !s.w.Resetup(host, m) {
		return false
	}
	s.removeHostFile(host, "resetup")
	return true
}

// ---------------------------------------------------------------- findings raised inside hooks

type finding struct{ sig, msg string }

func (s *sim) report(sig, format string, args ...any) {
	s.mu.Lock()
	if len(s.found) < 20 {
		s.found = append(s.found, finding{sig, fmt.Sprintf(format, args...)})
	}
	s.mu.Unlock()
}

// raise turns the first finding recorded by a hook into a violation (on the case's goroutine).
func (s *sim) raise() {
	if os.Getenv("VERIF_PANIC_IS_VIOLATION") != "" {
		// the C20 check re-runs other properties' histories with this set: a daemon panic is then
		// the violation, identified by its site
		s.c20RaisePanics()
	}
	s.mu.Lock()
	var f *finding
	if len(s.found) > 0 {
		f = &s.found[0]
	}
	s.mu.Unlock()
	if f != nil {
		s.dumpTrace(s.traceFrom)
		s.c.Violation(f.sig, "%s\n%s", f.msg, s.describe())
	}
}

// fingerprint of everything observable except timestamps (quiescence detection).
func (s *sim) fingerprint() string {
	s.w.Lock()
	var sb strings.Builder
	for _, n := range s.hostNames() {
		h := s.w.Hosts[n]
		fmt.Fprintf(&sb, "%s:%v%v%v%v%v%v%d|%s|%d;", n, h.Up, h.RO, h.SRO, h.Offline, h.SSMaster, h.SSSlave, h.SSWait, vs.GText(h.Executed), len(h.Pending))
		if ch := h.Chan; ch != nil {
			fmt.Fprintf(&sb, "ch:%s%v%v%v%v%d%d%d;", ch.Source, ch.IODesired, ch.SQLDesired, ch.IOConnected, ch.IOSemi, ch.LastIOErrno, ch.LastSQLErrno, len(ch.Relay))
		}
	}
	s.w.Unlock()
	d := s.zk.Dump()
	var keys []string
	for k := range d {
		if strings.HasPrefix(k, simNS+"/health") || strings.HasPrefix(k, simNS+"/resetup_status") || strings.HasPrefix(k, simNS+"/timing") {
			continue
		}
		keys = append(keys, k)
	}
	sort.Strings(keys)
	for _, k := range keys {
		fmt.Fprintf(&sb, "%s=%s;", k, d[k].Data)
	}
	for _, n := range s.hostNames() {
		fmt.Fprintf(&sb, "f:%v%v%v;", s.hostFileExists(n, "resetup"), s.hostFileExists(n, "maintenance"), s.hostFileExists(n, "emerge"))
	}
	for _, p := range s.alive() {
		fmt.Fprintf(&sb, "st:%s=%s;", p.id, p.app.state)
	}
	return sb.String()
}

func (s *sim) hostNames() []string {
	var names []string
	for n := range s.w.Hosts {
		names = append(names, n)
	}
	sort.Strings(names)
	return names
}

// quiesce lets the daemons run until nothing observable changes any more, jumping the
// virtual clock past every configured delay in between (a jump is a legal schedule: the
// skipped iterations would have seen the same stable state). resetup runs the external
// resetup tool whenever a resetup file shows up.
func (s *sim) quiesce(resetup bool, maxRounds int) (rounds int) {
	jumps := []time.Duration{0, 35 * time.Second, 65 * time.Second, 31 * time.Minute, 61 * time.Minute}
	for _, j := range jumps {
		if j > 0 {
			s.advance(j)
		}
		stable, last := 0, ""
		for stable < 4 && rounds < maxRounds {
			s.round(true)
			rounds++
			if resetup {
				for _, n := range s.hostNames() {
					if s.resetupTool(n) {
						stable = 0
					}
				}
			}
			fp := s.fingerprint()
			if fp == last {
				stable++
			} else {
				stable, last = 0, fp
			}
			s.raise()
		}
	}
	return rounds
}

// ---------------------------------------------------------------- recorded ticks

// tickRec is what the coordination service and the fake servers showed around one
// manager-loop iteration of one process.
type tickRec struct {
	p            *simProc
	t0, t1       time.Time
	stmt0, stmt1 int
	mut0, mut1   int
	stateBefore  appState
	stateAfter   appState
	lockBefore   string // lock owner identity when the tick began ("" none)
	lockAfter    string
	switchBefore *Switchover
	maintBefore  *Maintenance
	masterBefore string
	activeBefore []string
	recovBefore  []string
	done         bool
}

func (s *sim) lockOwner() string {
	v, ok := s.zkGet(pathManagerLock)
	if !ok {
		return ""
	}
	var o dcs.LockOwner
	if json.Unmarshal([]byte(v), &o) != nil {
		return ""
	}
	return o.Hostname
}

func (s *sim) currentSwitch() *Switchover {
	var sw Switchover
	if !s.zkJSON(pathCurrentSwitch, &sw) {
		return nil
	}
	return &sw
}

func (s *sim) currentMaint() *Maintenance {
	var m Maintenance
	if !s.zkJSON(pathMaintenance, &m) {
		return nil
	}
	return &m
}

// beginTick records the before-state and starts a tick of p (which may stay in flight).
func (s *sim) beginTick(p *simProc) *tickRec { return s.beginTickWith(p, nil) }

// beginTickWith lets the caller record more of the before-state.
func (s *sim) beginTickWith(p *simProc, extra func(r *tickRec)) *tickRec {
	if s.anyBusy(p) {
		return nil
	}
	r := &tickRec{p: p, t0: time.Now(), stmt0: s.w.StmtLen(), mut0: s.zk.MutLen(), stateBefore: p.app.state, lockBefore: s.lockOwner(),
		switchBefore: s.currentSwitch(), maintBefore: s.currentMaint(), masterBefore: s.masterKey(), activeBefore: s.activeNodes(),
		recovBefore: s.zk.Children(simNS + "/" + pathRecovery)}
	if extra != nil {
		extra(r)
	}
	p.onDone = func() { s.endTick(r) }
	s.start(p, "tick")
	return r
}

func (s *sim) endTick(r *tickRec) {
	r.done, r.t1, r.stmt1, r.mut1, r.stateAfter, r.lockAfter = true, time.Now(), s.w.StmtLen(), s.zk.MutLen(), r.p.app.state, s.lockOwner()
}

// finishTick advances virtual time until the tick has completed.
func (s *sim) finishTick(r *tickRec) {
	if r == nil || r.done {
		return
	}
	for i := 0; !r.done; i++ {
		s.advance(time.Second)
		if i > 6000 {
			s.t.Fatalf("harness: tick of %s did not finish", r.p.id)
		}
	}
}

// poll completes r if its tick has finished meanwhile.
func (s *sim) poll(r *tickRec) bool {
	return r == nil || r.done
}

// runFunc runs an arbitrary piece of the daemon (e.g. one repair function) as a step of p.
func (s *sim) runFunc(p *simProc, name string, f func()) {
	for i := 0; s.anyBusy(p); i++ {
		s.advance(time.Second)
	}
	ch := make(chan struct{})
	p.inflight[name] = ch
	go func() {
		defer close(ch)
		defer func() {
			if r := recover(); r != nil {
				s.recordPanic(p, name, r)
			}
		}()
		f()
	}()
	synctest.Wait()
	for i := 0; s.busy(p, name); i++ {
		s.advance(time.Second)
		if i > 4000 {
			s.t.Fatalf("harness: %s of %s did not finish", name, p.id)
		}
	}
}
