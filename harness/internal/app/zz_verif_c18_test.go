//go:build verif

package app

import (
	"fmt"
	"os"
	"testing"
	"time"

	nodestate "github.com/yandex/mysync/internal/app/node_state"
	"github.com/yandex/mysync/internal/mysql"
	vs "github.com/yandex/mysync/internal/verifsim"
)

// TestVerifC18: disk-space guard of the master.
func TestVerifC18(t *testing.T) {
	stt := vs.NewStats(t, "C18")
	stt.Rule = "the real repairReadOnlyOnMaster over the fake servers: critical_disk_usage 95, not_critical_disk_usage in {unset(=95), 80}; master usage and 0-3 replica usages on the grid {0,79.9,80,80.1,94.9,95,95.1,100,>total} or report missing; replicas reported as semi-sync+running or not; master wait count 0-2; master read-write / read-only / super-read-only; keep_super_writable on/off; semi_sync on/off; sequences of 1-4 passes (hysteresis); oracle = expected action from the statement's table (which statement, skipped when already in that mode; nothing in between) and low_space = last successful change; non-trivial = some usage within 0.2 of a threshold or a replica rule decided"
	stt.Assumptions = simAssumptions
	grid := []float64{0, 50, 79.9, 80, 80.1, 94.9, 95, 95.1, 100, 120}
	stt.Check(t, vs.CheckOpts{Bubble: true}, func(c *vs.Case) {
		nrep := c.Src.Int("replicas", 0, 3)
		ha := []string{"h1", "h2", "h3", "h4"}[:nrep+1]
		semi := c.Src.Int("semi_sync", 0, 3) != 0
		keep := c.Src.Bool("keep_super_writable")
		notCrit := []float64{95, 80}[c.Src.Int("not_critical", 0, 1)]
		o := simOpts{HA: ha, LogLevel: simLogLevel(), Cfg: map[string]string{"semi_sync": fmt.Sprint(semi), "keep_super_writable_on_critical_disk_usage": fmt.Sprint(keep),
			"critical_disk_usage": "95", "db_set_ro_force_timeout": "6s"}}
		if notCrit != 95 {
			o.Cfg["not_critical_disk_usage"] = "80"
		}
		dir, _ := os.MkdirTemp("", "verifsim")
		defer os.RemoveAll(dir)
		s := newSim(c, c.RTOrT(t), dir, o)
		defer s.close()
		s.makeWarm("h1", append([]string{}, ha...), semi, 1)
		p := s.procs["h1"]
		s.runFunc(p, "learn-hosts", func() {
			p.app.dcs.WaitConnected(5 * time.Second)
			p.app.dcs.Initialize()
			p.app.initializeOptimizationModule()
			_ = p.app.cluster.UpdateHostsInfo()
		})
		s.traceFrom = s.w.StmtLen()
		mh := s.w.Hosts["h1"]
		interesting := false
		passes := c.Src.Int("passes", 1, 4)
		for pass := 0; pass < passes; pass++ {
			mode := c.Src.Pick("master_mode", "keep", "rw", "ro", "super-ro")
			wait := c.Src.Int("wait_count", 0, 2)
			s.w.Lock()
			switch mode {
			case "rw":
				mh.RO, mh.SRO = false, false
			case "ro":
				mh.RO, mh.SRO = true, false
			case "super-ro":
				mh.RO, mh.SRO = true, true
			}
			mh.SSWait = max(wait, 1)
			mh.SSMaster = wait > 0
			wasRO, wasSRO := mh.RO, mh.SRO
			s.w.Unlock()
			usage := func(label string) (*nodestate.DiskState, float64) {
				if c.Src.Int(label+".missing", 0, 7) == 0 {
					return nil, -1
				}
				u := grid[c.Src.Int(label+".usage", 0, len(grid)-1)]
				return &nodestate.DiskState{Used: uint64(u * 1000), Total: 100000}, min(u, 100)
			}
			dcsState := map[string]*nodestate.NodeState{}
			mDisk, mUse := usage("master")
			dcsState["h1"] = &nodestate.NodeState{PingOk: true, IsMaster: true, DiskState: mDisk}
			running, low, normal := 0, 0, 0
			for _, h := range ha[1:] {
				d, u := usage(h)
				ssRunning := c.Src.Int(h+".semisync_running", 0, 3) != 0
				ns := &nodestate.NodeState{PingOk: true, DiskState: d}
				if ssRunning {
					ns.SemiSyncState = &nodestate.SemiSyncState{SlaveEnabled: true}
					ns.SlaveState = &nodestate.SlaveState{MasterHost: "h1", ReplicationState: mysql.ReplicationRunning}
				} else if c.Src.Bool(h + ".stopped") {
					ns.SemiSyncState = &nodestate.SemiSyncState{SlaveEnabled: true}
					ns.SlaveState = &nodestate.SlaveState{MasterHost: "h1", ReplicationState: mysql.ReplicationStopped}
				}
				dcsState[h] = ns
				if d != nil && ssRunning && semi {
					running++
					switch {
					case u >= 95:
						low++
					case u <= notCrit:
						normal++
					}
				}
				if d != nil && (near(u, 95) || near(u, notCrit)) {
					interesting = true
				}
			}
			if mDisk != nil && (near(mUse, 95) || near(mUse, notCrit)) {
				interesting = true
			}
			masterState := &nodestate.NodeState{PingOk: true, IsMaster: true, IsReadOnly: wasRO, IsSuperReadOnly: wasSRO,
				SemiSyncState: &nodestate.SemiSyncState{MasterEnabled: wait > 0, WaitSlaveCount: max(wait, 1)}}
			effWait := max(wait, 1) // the count the server reports
			// ---- expectation
			expect := "nothing"
			if mDisk == nil {
				expect = "unspecified" // usage unknown: the statement does not say (only 'no crash' is required)
			} else {
				needRO := mUse >= 95
				if running > 0 && running-low < effWait {
					needRO = true
					interesting = true
				}
				mayWrite := mUse <= notCrit && (running == 0 || normal > 0)
				switch {
				case needRO:
					expect = "read-only"
				case mayWrite:
					expect = "writable"
				}
			}
			lowBefore, _ := s.zkGet(pathLowSpace)
			from := s.w.StmtLen()
			node := p.app.cluster.Get("h1")
			s.runFunc(p, "repairReadOnlyOnMaster", func() { p.app.repairReadOnlyOnMaster(node, masterState, dcsState) })
			var got []string
			for _, st := range s.w.StmtsSince(from) {
				if st.Issuer == p.id && st.Mutating {
					got = append(got, st.Class)
					if st.Target != "h1" {
						c.Violation("c18-wrong-target", "disk guard sent %q to %s", st.Query, st.Target)
					}
				}
			}
			lowAfter, _ := s.zkGet(pathLowSpace)
			desc := fmt.Sprintf("pass %d: master usage %v (was ro=%v super=%v, wait %d), %d running semi-sync replicas (%d critical, %d at/below %.0f), keep_super_writable=%v, semi_sync=%v", pass, mUse, wasRO, wasSRO, wait, running, low, normal, notCrit, keep, semi)
			c.Class("expect:" + expect)
			switch expect {
			case "unspecified":
			case "nothing":
				if len(got) > 0 {
					c.Violation("c18-acted-in-grey-zone", "%s: nothing must change, got %v", desc, got)
				}
			case "read-only":
				want := "set_ro"
				if keep {
					want = "set_ro_nosuper"
				}
				already := wasRO && (keep != wasSRO)
				if already {
					if len(got) > 0 {
						c.Violation("c18-reset-although-already", "%s: master already read-only in the wanted flavour, got %v", desc, got)
					}
					break
				}
				ok := false
				for _, g := range got {
					if g == "set_writable" || (g != want && (g == "set_ro" || g == "set_ro_nosuper")) {
						c.Violation("c18-wrong-statement", "%s: expected %s, got %v", desc, want, got)
					}
					ok = ok || g == want
				}
				if !ok {
					s.dumpTrace(from)
					c.Violation("c18-not-read-only", "%s: master must be made read-only (%s), got %v", desc, want, got)
				}
				if lowAfter != "true" {
					c.Violation("c18-low-space-flag", "%s: low_space is %q after the master was made read-only", desc, lowAfter)
				}
			case "writable":
				if !wasRO {
					if len(got) > 0 {
						c.Violation("c18-acted-while-writable", "%s: master writable and may stay so, got %v", desc, got)
					}
					break
				}
				if len(got) != 1 || got[0] != "set_writable" {
					s.dumpTrace(from)
					c.Violation("c18-not-writable", "%s: read-only master must be made writable again, got %v", desc, got)
				}
				if lowAfter != "false" {
					c.Violation("c18-low-space-flag", "%s: low_space is %q after the master was made writable", desc, lowAfter)
				}
			}
			if len(got) == 0 && lowAfter != lowBefore {
				c.Violation("c18-low-space-flag", "%s: low_space changed %q -> %q without a change of the master", desc, lowBefore, lowAfter)
			}
		}
		if len(s.panics) > 0 {
			c.Violation("c18-panic", "%v", s.panics[0])
		}
		if u := s.unknownStatements(); len(u) > 0 {
			c.Violation("harness-unknown-statement", "calibration: fake MySQL did not recognise %v", u)
		}
		if interesting {
			c.NonTrivial()
		}
	})
}

func near(u, th float64) bool { return u >= th-0.2 && u <= th+0.2 }
