//go:build verif

package app

import (
	"encoding/json"
	"fmt"
	"math"
	"os"
	"strings"
	"testing"
	"time"

	nodestate "github.com/yandex/mysync/internal/app/node_state"
	"github.com/yandex/mysync/internal/mysql"
	vs "github.com/yandex/mysync/internal/verifsim"
)

func c17Zone(host, sep string) string {
	if sep == "" {
		return ""
	}
	if i := strings.Index(host, sep); i >= 0 {
		return host[:i]
	}
	return ""
}

// TestVerifC17: offline-mode policy of the periodic repair pass.
func TestVerifC17(t *testing.T) {
	stt := vs.NewStats(t, "C17")
	stt.Rule = "the real repairOfflineMode on a cluster state collected by the real getClusterStateFromDB over the fake servers: 1-6 replicas named over 1-3 zones with separator '-', '.', '' or absent, offline_mode_max_offline_pct in {0,1,33,34,50,66,99,100} or any value 0-100, enable lag 10s / disable lag 5s, per replica lag on the grid {0,4,5,6,9,10,11,40} or unknown (SQL thread stopped), already offline or not, replication permanently broken (IO error 13114 with unapplied relay) or not, resetup status {negative fresh, positive, older than the server start, missing}; master writable or read-only, offline or not, marked for recovery or not; the optimisation-registry write that follows a lag-based offline statement failing never / always / the first time; 1-3 passes with time advancing across offline_mode_enable_interval; oracle = validity of every offline_mode statement in arrival order (lag rule with the per-zone cap counting earlier statements of the pass, broken rule at most once per interval cluster-wide, online only with lag <= disable, not broken, negative status newer than the server start; nothing between the thresholds; master only ever OFF and only when not marked); non-trivial = at least one offline_mode statement was judged"
	stt.Assumptions = simAssumptions
	lags := []int{0, 4, 5, 6, 9, 10, 11, 40}
	stt.Check(t, vs.CheckOpts{Bubble: true}, func(c *vs.Case) {
		sep := c.Src.Pick("separator", "-", "-", ".", "")
		pct := []int{0, 1, 33, 34, 50, 66, 99, 100}[c.Src.Int("max_offline_pct", 0, 7)]
		if c.Src.Bool("any_pct") {
			pct = c.Src.Int("pct", 0, 100)
		}
		nrep := c.Src.Int("replicas", 1, 6)
		zones := []string{"za", "zb", "zc"}[:c.Src.Int("zones", 1, 3)]
		master := "za-m"
		ha := []string{master}
		for i := 0; i < nrep; i++ {
			z := zones[c.Src.Int("zone", 0, len(zones)-1)]
			name := fmt.Sprintf("%s%sr%d", z, c.Src.Pick("name_sep", "-", "-", ".", "x"), i)
			ha = append(ha, name)
		}
		o := simOpts{HA: ha, LogLevel: simLogLevel(), Cfg: map[string]string{"offline_mode_enable_lag": "10s", "offline_mode_disable_lag": "5s",
			"offline_mode_max_offline_pct": fmt.Sprint(pct), "offline_mode_az_separator": "\"" + sep + "\"", "offline_mode_enable_interval": "15m", "semi_sync": "false"}}
		dir, _ := os.MkdirTemp("", "verifsim")
		defer os.RemoveAll(dir)
		s := newSim(c, c.RTOrT(t), dir, o)
		defer s.close()
		s.makeWarm(master, append([]string{}, ha...), false, 0)
		p := s.procs[master]
		s.runFunc(p, "learn-hosts", func() {
			p.app.dcs.WaitConnected(5 * time.Second)
			p.app.dcs.Initialize()
			p.app.initializeOptimizationModule()
			_ = p.app.cluster.UpdateHostsInfo()
		})
		s.traceFrom = s.w.StmtLen()
		judged := 0
		var lastBrokenOff time.Time
		passes := c.Src.Int("passes", 1, 3)
		for pass := 0; pass < passes; pass++ {
			if pass > 0 {
				s.advance([]time.Duration{time.Minute, 14 * time.Minute, 16 * time.Minute}[c.Src.Int("advance", 0, 2)])
			}
			now := time.Now()
			type rep struct {
				lag     float64
				known   bool
				offline bool
				broken  bool
				status  string
			}
			reps := map[string]*rep{}
			mRO, mOff, mMarked := c.Src.Int("master_read_only", 0, 4) == 0, c.Src.Int("master_offline", 0, 3) == 0, c.Src.Int("master_marked", 0, 3) == 0
			// draws first, then the world is arranged
			for _, h := range ha[1:] {
				r := &rep{lag: float64(lags[c.Src.Int(h+".lag", 0, len(lags)-1)]), known: c.Src.Int(h+".lag_unknown", 0, 6) != 0,
					offline: c.Src.Bool(h + ".offline"), broken: c.Src.Int(h+".broken", 0, 4) == 0,
					status: c.Src.Pick(h+".resetup_status", "negative-fresh", "negative-fresh", "positive", "older-than-start", "missing")}
				reps[h] = r
			}
			s.w.Lock()
			mh := s.w.Hosts[master]
			mh.RO, mh.SRO, mh.Offline = mRO, mRO, mOff
			if !mh.HasExecuted(uuidFor(0), 100) {
				mh.AddExecuted(vs.Txn{UUID: uuidFor(0), Gno: 100, Size: 100, At: now.Add(-time.Hour)})
			}
			for _, h := range ha[1:] {
				r, hh := reps[h], s.w.Hosts[h]
				hh.Offline = r.offline
				hh.StartedAt = now.Add(-time.Hour)
				hh.ApplyDelay = 100 * time.Hour
				hh.ResetData()
				for _, tx := range mh.Binlog { // everything the master has, except the newest transaction
					if tx.Gno != 100 {
						hh.AddExecuted(tx)
					}
				}
				hh.Chan = vs.NewChannel(master, true)
				// an unapplied relayed transaction committed lag seconds ago makes Seconds_Behind = lag
				if r.lag == 0 {
					hh.AddExecuted(vs.Txn{UUID: uuidFor(0), Gno: 100, Size: 100, At: now.Add(-time.Hour)}) // fully applied
				} else {
					hh.AddRelay(vs.Txn{UUID: uuidFor(0), Gno: 100, Size: 100, At: now.Add(-time.Duration(r.lag * float64(time.Second)))}, now)
				}
				if !r.known {
					hh.Chan.SQLDesired = false
				}
				if r.broken {
					hh.Chan.IODesired, hh.Chan.LastIOErrno, hh.Chan.LastIOError = false, 13114, "fatal error 1236 from source"
					if r.lag == 0 {
						r.known = false // IO stopped and nothing to apply: Seconds_Behind is NULL
					}
				}
			}
			if !mh.HasExecuted(uuidFor(0), 100) {
				mh.AddExecuted(vs.Txn{UUID: uuidFor(0), Gno: 100, Size: 100, At: now.Add(-time.Hour)})
			}
			s.w.Unlock()
			for _, h := range ha[1:] {
				key := simNS + "/" + pathResetupStatus + "/" + h
				switch reps[h].status {
				case "missing":
					s.zk.RawDelete(key)
				default:
					st := mysql.ResetupStatus{Status: reps[h].status == "positive", UpdateTime: now.Add(-time.Minute)}
					if reps[h].status == "older-than-start" {
						st.UpdateTime = now.Add(-2 * time.Hour)
					}
					b, _ := json.Marshal(st)
					s.zk.RawSet(key, b)
				}
			}
			if mMarked {
				s.zk.RawSet(simNS+"/"+pathRecovery+"/"+master, []byte("null"))
			} else {
				s.zk.RawDelete(simNS + "/" + pathRecovery + "/" + master)
			}
			// the registration of a replica taken offline for lag (a coordination-service write made
			// right after the statement) may fail: the statement still counts towards the zone's share
			regFail := c.Src.Pick("optimization_registration_fails", "never", "never", "always", "first-only")
			regSeen := 0
			s.zk.Intercept = func(r *vs.ZKReq) vs.ZKAction {
				if regFail == "never" || r.Client == "raw" || r.Op != vs.OpCreate || !strings.Contains(r.Path, "/optimization_nodes/") {
					return vs.ZKProceed
				}
				regSeen++
				if regFail == "first-only" && regSeen > 1 {
					return vs.ZKProceed
				}
				return vs.ZKCutBefore
			}
			var cs map[string]*nodestate.NodeState
			from := s.w.StmtLen()
			s.runFunc(p, "repairOfflineMode", func() {
				cs = p.app.getClusterStateFromDB()
				from = s.w.StmtLen()
				p.app.repairOfflineMode(cs, master)
			})
			s.zk.Intercept = nil
			// ---- judge every offline_mode statement in arrival order
			zoneSize, zoneOffline := map[string]int{}, map[string]int{}
			for _, h := range ha[1:] {
				z := c17Zone(h, sep)
				zoneSize[z]++
				if reps[h].offline {
					zoneOffline[z]++
				}
			}
			taken := map[string]int{}
			takenHost := map[string]bool{}
			for _, st := range s.w.StmtsSince(from) {
				if st.Issuer != p.id || (st.Class != "offline_on" && st.Class != "offline_off") {
					continue
				}
				judged++
				if st.Target == master {
					if st.Class == "offline_on" {
						c.Violation("c17-master-taken-offline", "pass %d: the master was taken offline", pass)
					}
					if mMarked {
						c.Violation("c17-marked-master-brought-online", "pass %d: the master is marked for recovery but was brought online", pass)
					}
					continue
				}
				r := reps[st.Target]
				z := c17Zone(st.Target, sep)
				desc := fmt.Sprintf("pass %d, replica %s (zone %q of %d, %d offline before, %d taken in this pass): lag %v known=%v offline=%v broken=%v status=%s; master read-only=%v; pct %d",
					pass, st.Target, z, zoneSize[z], zoneOffline[z], taken[z], r.lag, r.known, r.offline, r.broken, r.status, mRO, pct)
				if !r.known {
					c.Violation("c17-acted-on-unknown-lag", "%s: %s although its lag is unknown", desc, st.Query)
				}
				if st.Class == "offline_off" {
					if !(r.offline && r.lag <= 5 && !r.broken && r.status == "negative-fresh") {
						s.dumpTrace(from)
						c.Violation("c17-unjustified-online", "%s: brought online", desc)
					}
					continue
				}
				// offline_on
				share := int(math.Floor(100 * float64(zoneOffline[z]+taken[z]+1) / float64(zoneSize[z])))
				capOK := pct >= 100 || (pct > 0 && share <= pct)
				byLag := !r.offline && !takenHost[st.Target] && r.lag > 10 && !mRO && capOK
				byBroken := !r.offline && r.broken && (lastBrokenOff.IsZero() || st.At.Sub(lastBrokenOff) > 15*time.Minute)
				switch {
				case byLag:
					taken[z]++
					takenHost[st.Target] = true
				case byBroken:
					lastBrokenOff = st.At
				default:
					s.dumpTrace(from)
					c.Violation("c17-unjustified-offline", "%s: taken offline (share would be %d%%; last broken-rule action %v ago)", desc, share, st.At.Sub(lastBrokenOff))
				}
			}
		}
		if len(s.panics) > 0 {
			c.Violation("c17-panic", "%v", s.panics[0])
		}
		if u := s.unknownStatements(); len(u) > 0 {
			c.Violation("harness-unknown-statement", "calibration: fake MySQL did not recognise %v", u)
		}
		if judged > 0 {
			c.NonTrivial()
		}
	})
}
