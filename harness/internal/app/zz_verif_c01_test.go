//go:build verif

package app

import (
	"encoding/json"
	"fmt"
	"github.com/yandex/mysync/internal/mysql"
	"os"
	"sort"
	"strings"
	"testing"
	"time"

	vs "github.com/yandex/mysync/internal/verifsim"
)

// makeWarm turns the freshly provisioned world into a converged one without running the
// daemons: master online and writable with the semi-sync setting the list implies, replicas
// online semi-sync followers, master and active list recorded.
func (s *sim) makeWarm(master string, active []string, semi bool, wait int) {
	s.w.Lock()
	for _, n := range s.hostNames() {
		h := s.w.Hosts[n]
		h.Offline = false
		if n == master {
			h.RO, h.SRO, h.Chan = false, false, nil
			if semi {
				k := len(active) / 2
				if wait < k {
					k = wait
				}
				if k > 0 {
					h.SSMaster, h.SSWait = true, k
				}
			}
		} else if _, casc := s.opts.Cascade[n]; !casc && semi {
			h.SSSlave = true
		}
	}
	s.w.SettleLocked()
	s.w.Unlock()
	b, _ := json.Marshal(master)
	s.zk.RawSet(simNS+"/"+pathMasterNode, b)
	sort.Strings(active)
	b, _ = json.Marshal(active)
	s.zk.RawSet(simNS+"/"+pathActiveNodes, b)
}

type c01Promotion struct {
	by, host string
	at       time.Time
}

type c01State struct {
	tickMaster         map[string]string   // proc -> master key when its tick began
	tickActive         map[string][]string // proc -> active list when its tick began
	tickStmt           map[string]int      // proc -> statement log length when its tick began
	promotions         []c01Promotion
	semi               bool
	wait               int
	asyncLag           time.Duration
	asyncRef           time.Time // the master's last repl_mon timestamp as recorded in the coordination service
	asyncExceptionUsed bool
	marked             map[string]bool // hosts marked for recovery (C11), refreshed at tick start
	faultFree          bool
	sawSplitBrain      bool
	checkOptimisation  bool
	optStatus          string
	// snap: what each host held when the issuing tick froze it (proc -> host -> set). The
	// promotion clause is evaluated against this and the current holdings, so that discarding
	// a received transaction between freeze and promotion cannot hide it.
	snap map[string]map[string]vs.RefSet
}

// frozenInTick: hosts this process froze in its current tick, from the fake servers'
// statement log: read-only set successfully in the freeze phase (before the first
// 'stop IO thread' of the tick) and, for replicas, the first 'stop IO thread' succeeded.
func frozenInTick(stmts []vs.Stmt, proc, oldMaster string) []string {
	ro, io, ioSeen, verify := map[string]bool{}, map[string]bool{}, map[string]bool{}, map[string]bool{}
	phase2 := false
	for _, st := range stmts {
		if st.Issuer != proc {
			continue
		}
		switch st.Class {
		case "set_ro":
			// mysync counts the node read-only once the SET succeeded and the verification
			// read that follows it succeeded too
			verify[st.Target] = !phase2 && st.Outcome == "ok"
		case "is_readonly":
			if verify[st.Target] && st.Outcome == "ok" {
				ro[st.Target] = true
			}
			verify[st.Target] = false
		case "stop_io":
			phase2 = true
			if !ioSeen[st.Target] {
				ioSeen[st.Target] = true
				io[st.Target] = st.Outcome == "ok"
			}
		}
	}
	var z []string
	for h := range ro {
		if io[h] || (h == oldMaster && phase2) {
			z = append(z, h)
		}
	}
	sort.Strings(z)
	return z
}

// installC01Monitor evaluates the promotion clause at the instant 'SET GLOBAL read_only = 0'
// reaches a host that is not the master recorded when the issuing tick began.
func (s *sim) installC01Monitor(cs *c01State) {
	cs.snap = map[string]map[string]vs.RefSet{}
	s.w.AfterStmt = func(w *vs.MyWorld, st *vs.Stmt, h *vs.MyHost) {
		if st.Class != "stop_io" && st.Class != "set_ro" {
			return
		}
		if cs.snap[st.Issuer] == nil {
			cs.snap[st.Issuer] = map[string]vs.RefSet{}
		}
		if _, ok := cs.snap[st.Issuer][st.Target]; !ok {
			cs.snap[st.Issuer][st.Target] = h.Holds()
		}
	}
	s.w.OnStatement = func(w *vs.MyWorld, st *vs.Stmt, x *vs.MyHost) {
		if st.Class != "set_writable" {
			return
		}
		oldMaster, known := cs.tickMaster[st.Issuer]
		if !known || oldMaster == "" || st.Target == oldMaster {
			return
		}
		cs.promotions = append(cs.promotions, c01Promotion{st.Issuer, st.Target, st.At})
		active := cs.tickActive[st.Issuer]
		if cs.marked[st.Target] {
			s.report("c11-promoted-marked-host", "host %s is marked for recovery but is made writable by %s", st.Target, st.Issuer)
		}
		if _, casc := s.opts.Cascade[st.Target]; casc {
			s.report("c16-cascade-promoted", "cascade replica %s is made writable by %s", st.Target, st.Issuer)
		}
		// C19: never promoted while registered as optimising or carrying the relaxed settings
		if cs.checkOptimisation {
			_, registered := s.zkGet("optimization_nodes/" + st.Target)
			relaxed := x.FlushLog == mysql.OptimalInnodbFlushLogAtTrxCommitValue && x.SyncBin == mysql.OptimalSyncBinlogValue
			if registered || relaxed {
				s.report(fmt.Sprintf("c19-promoted-while-optimising:registered=%v,relaxed=%v,status=%s", registered, relaxed, cs.optStatus), "%s makes %s writable while it is registered in optimization_nodes=%v and carries relaxed durability settings=%v (innodb_flush_log_at_trx_commit=%d sync_binlog=%d)",
					st.Issuer, st.Target, registered, relaxed, x.FlushLog, x.SyncBin)
			}
		}
		// the bound: members of the published list that are frozen now and hold nothing X has not executed
		// async exception (automatic failover only): a target whose repl_mon row is less than
		// async_allowed_lag (whole seconds, floored) behind the master's recorded one may be promoted
		// without catching up. The exception is defined by that MEASURED lag, not by the age of
		// what is missing (with a multi-threaded applier the row can be newer than a gap), so when
		// it applies the containment clauses say nothing; when it does not, they apply in full.
		if sw := s.currentSwitch(); cs.asyncLag > 0 && sw != nil && sw.Cause == CauseAuto && cs.asyncRef.Sub(x.ReplMonTS) < cs.asyncLag+time.Second {
			// (judged by the request being executed at this instant: an automatic failover can also
			// follow an operator request that was rejected after the master died)
			cs.asyncExceptionUsed = true
			return
		}
		young := func(t vs.Txn) bool { return false }
		ex := x.Executed
		contained := func(h *vs.MyHost) (bool, string) {
			for _, t := range h.Binlog {
				if !ex.Has(vs.RefKey(t.UUID, ""), t.Gno) && !young(t) {
					// binlog holds executed and ack-pending transactions
					if h.Executed.Has(vs.RefKey(t.UUID, ""), t.Gno) {
						return false, fmt.Sprintf("%s:%d executed on %s", t.UUID, t.Gno, h.Name)
					}
				}
			}
			if h.Chan != nil {
				for _, e := range h.Chan.Relay {
					if !ex.Has(vs.RefKey(e.UUID, ""), e.Gno) && !young(e.Txn) {
						return false, fmt.Sprintf("%s:%d received by %s", e.UUID, e.Gno, h.Name)
					}
				}
			}
			if sn, ok := cs.snap[st.Issuer][h.Name]; ok {
				if d := vs.RefMinus(sn, ex); !vs.RefEmpty(d) {
					return false, fmt.Sprintf("%s which %s held when it was frozen (since discarded)", strings.TrimSpace(d.String()), h.Name)
				}
			}
			return true, ""
		}
		var f, why []string
		replicaInF := false
		frozen := map[string]bool{}
		for _, z := range frozenInTick(w.Stmts[cs.tickStmt[st.Issuer]:], st.Issuer, oldMaster) {
			frozen[z] = true
		}
		for _, n := range active {
			h := w.Hosts[n]
			// A member that this tick froze and that crashed afterwards still counts: it cannot
			// acknowledge anything, restarts read-only, and what it durably holds is compared
			// below. A member that was down before the freeze (never frozen) does not count.
			if h == nil || (!h.Up && !frozen[n]) {
				why = append(why, n+": down")
				continue
			}
			if h.Up && !h.RO && n != st.Target {
				why = append(why, n+": not read-only")
				continue
			}
			if ok, miss := contained(h); !ok {
				why = append(why, n+": holds "+miss+" which "+st.Target+" has not executed")
				continue
			}
			f = append(f, n)
			if n != oldMaster {
				replicaInF = true
			}
		}
		if cs.semi {
			k := len(active) / 2
			if cs.wait < k {
				k = cs.wait
			}
			q := len(active) - k
			if q < 1 {
				q = 1
			}
			if len(f) < q {
				s.report("c01-quorum", "%s makes %s writable (old master %s): only %v of the published active list %v are read-only and hold nothing %s lacks; failover quorum is %d (%s)",
					st.Issuer, st.Target, oldMaster, f, active, st.Target, q, strings.Join(why, "; "))
			}
		} else if !replicaInF {
			s.report("c01-async-no-replica", "%s makes %s writable (old master %s): no alive frozen active replica is covered by it: frozen-and-contained %v of list %v (%s)",
				st.Issuer, st.Target, oldMaster, f, active, strings.Join(why, "; "))
		}
		// split-brain clause, part 1: X has executed everything any member frozen in this tick holds
		stmts := w.Stmts[cs.tickStmt[st.Issuer]:]
		for _, z := range frozenInTick(stmts, st.Issuer, oldMaster) {
			if h := w.Hosts[z]; h != nil && h.Up {
				if ok, miss := contained(h); !ok {
					s.report("c01-promoted-over-frozen-member", "%s makes %s writable although frozen member %s holds %s (split brain or missing catch-up)", st.Issuer, st.Target, z, miss)
				}
			}
		}
	}
}

// tick runs one manager-loop iteration of p, recording what the coordination service showed when it began.
func (s *sim) c01Tick(cs *c01State, p *simProc) {
	cs.tickMaster[p.id] = s.masterKey()
	cs.tickActive[p.id] = s.activeNodes()
	cs.tickStmt[p.id] = s.w.StmtLen()
	delete(cs.snap, p.id)
	cs.marked = map[string]bool{}
	for _, h := range s.zk.Children(simNS + "/" + pathRecovery) {
		cs.marked[h] = true
	}
	s.run(p, "tick")
	s.raise()
	// split-brain clause, part 2 (fault-free ticks only): the tick froze a quorum whose sets
	// have no maximum by inclusion => nothing promoted by it and the emergency file exists
	if !cs.faultFree {
		return
	}
	s.w.Lock()
	stmts := append([]vs.Stmt(nil), s.w.Stmts[cs.tickStmt[p.id]:]...)
	z := frozenInTick(stmts, p.id, cs.tickMaster[p.id])
	active := cs.tickActive[p.id]
	k := len(active) / 2
	if cs.wait < k {
		k = cs.wait
	}
	q := len(active) - k
	if q < 1 || !cs.semi {
		q = 1
	}
	hasMax := false
	for _, a := range z {
		all := true
		for _, b := range z {
			if !vs.GSubset(s.w.Hosts[b].Holds(), s.w.Hosts[a].Holds()) {
				all = false
			}
		}
		hasMax = hasMax || all
	}
	s.w.Unlock()
	if len(z) >= 2 && len(z) >= q && !hasMax {
		cs.sawSplitBrain = true
		for _, st := range stmts {
			if st.Issuer == p.id && st.Class == "set_writable" && st.Target != cs.tickMaster[p.id] {
				s.c.Violation("c01-splitbrain-promoted", "%s froze %v whose transaction sets have no maximum (split brain) and still made %s writable", p.id, z, st.Target)
			}
		}
		if !s.hostFileExists(p.host, "emerge") {
			s.dumpTrace(cs.tickStmt[p.id])
			s.c.Violation("c01-splitbrain-no-emerge", "%s froze %v whose transaction sets have no maximum (split brain) but wrote no emergency file\n%s", p.id, z, s.describe())
		}
	}
}

var c01FaultClasses = []string{"set_ro", "stop_io", "replica_status", "gtid_executed", "change_source", "start_replica", "stop_replica",
	"reset_replica_all", "set_writable", "offline_off", "offline_on", "ss_disable", "ping", "list_events", "ss_status", "is_readonly"}

type c01Replica struct {
	name       string
	prefix     int
	tail       int
	gap        bool
	errant     string
	applyDelay time.Duration
}

// TestVerifC01: promotion only of a caught-up node backed by a frozen quorum.
func TestVerifC01(t *testing.T) {
	stt := vs.NewStats(t, "C01")
	stt.Rule = "warm clusters of 2-5 HA hosts (+0-1 cascade), semi-sync (wait count 1-3) or plain async (optionally with repl_mon and async_allowed_lag 20s/10min: then, and only for automatic failover, a target whose measured repl_mon lag is below the allowed lag is exempt from the containment clauses), both adjustment orders, force_switchover on/off, MySQL 5.7/8.0 dialect; GTID history built by construction: master log of 6-30 transactions over 2 source UUIDs, per replica an applied prefix, optional gap (multi-threaded applier), received-but-unapplied tail, optional errant transaction (own or foreign UUID), apply delay 0/4s/40s/20min; published active list consistent or stale (extra dead member / missing member); request: --to, --from, automatic (master crashed or isolated, filed by the real failure detection), operator --failover, worker-style request without master_transition; up to 3 injected faults (statement class x target x {1205,1040,1105,hang,cut-before,cut-after}), optional server crash at the k-th call of the manager, optional ZooKeeper request fault; the request is processed by real manager ticks; oracle at the instant 'SET GLOBAL read_only = 0' reaches a host other than the recorded master: quorum of the published list frozen and contained (ground truth), promoted host covers every member frozen in that tick; fault-free generated split brain => no promotion and emergency file; non-trivial = a promotion with tail/gap/fault/catch-up/stale list, or a generated split brain"
	stt.Assumptions = simAssumptions
	stt.Check(t, vs.CheckOpts{Bubble: true}, func(c *vs.Case) {
		n := c.Src.Int("ha_hosts", 2, 5)
		ha := []string{"h1", "h2", "h3", "h4", "h5"}[:n]
		semi := c.Src.Int("semi_sync", 0, 3) != 0
		wait := c.Src.Int("wait_count", 1, 3)
		ver := [3]int{8, 0, 32}
		if c.Src.Int("dialect57", 0, 3) == 0 {
			ver = [3]int{5, 7, 40}
		}
		asyncExc := !semi && c.Src.Int("async_allowed_lag_exception", 0, 2) == 0
		asyncL := []time.Duration{20 * time.Second, 10 * time.Minute}[c.Src.Int("async_allowed_lag", 0, 1)]
		o := simOpts{HA: ha, Ver: ver, LogLevel: simLogLevel(), Cfg: map[string]string{
			"semi_sync": fmt.Sprint(semi), "rpl_semi_sync_master_wait_for_slave_count": fmt.Sprint(wait),
			"master_first_adjust_ss_order": fmt.Sprint(c.Src.Bool("master_first_order")),
			"force_switchover":             fmt.Sprint(c.Src.Int("force_switchover", 0, 3) == 0),
			"failover":                     "true", "failover_delay": "0s", "inactivation_delay": "5s",
			"slave_catch_up_timeout": c.Src.Pick("catch_up_timeout", "30m", "30s"),
		}}
		if asyncExc {
			o.Cfg["async"], o.Cfg["async_allowed_lag"], o.Cfg["repl_mon"] = "true", asyncL.String(), "true"
		}
		if c.Src.Int("cascade", 0, 4) == 0 {
			o.Cascade = map[string]string{"c1": ha[c.Src.Int("cascade_source", 0, n-1)]}
		}
		dir, _ := os.MkdirTemp("", "verifsim")
		defer os.RemoveAll(dir)
		s := newSim(c, c.RTOrT(t), dir, o)
		defer s.close()
		master := "h1"

		// ---- GTID history by construction
		now := time.Now()
		T := c.Src.Int("log_len", 6, 30)
		kOld := c.Src.Int("old_uuid_txns", 0, T/2)
		uOld, uM := uuidFor(7), uuidFor(0)
		var log []vs.Txn
		for j := 0; j < T; j++ {
			tx := vs.Txn{UUID: uM, Gno: int64(j - kOld + 1), Size: 250, At: now.Add(-time.Duration(T-j) * 3 * time.Second)}
			if j < kOld {
				tx.UUID, tx.Gno = uOld, int64(j+1)
			}
			log = append(log, tx)
		}
		var reps []c01Replica
		interesting := []string{}
		// (no daemon has run yet: the world needs no lock here, and none may be held across draws)
		for _, hn := range s.hostNames() {
			h := s.w.Hosts[hn]
			h.ResetData()
			if hn == master {
				for _, tx := range log {
					h.AddExecuted(tx)
				}
				continue
			}
			r := c01Replica{name: hn, prefix: T - c.Src.Int("behind."+hn, 0, 4)}
			if r.prefix < 1 {
				r.prefix = 1
			}
			r.tail = c.Src.Int("tail."+hn, 0, T-r.prefix)
			r.gap = r.prefix >= 3 && c.Src.Int("gap."+hn, 0, 4) == 0
			r.errant = c.Src.Pick("errant."+hn, "none", "none", "none", "none", "none", "own-uuid", "foreign-uuid")
			r.applyDelay = []time.Duration{0, 4 * time.Second, 40 * time.Second, 20 * time.Minute}[c.Src.Int("apply_delay."+hn, 0, 3)]
			h.ApplyDelay = r.applyDelay
			for j := 0; j < r.prefix; j++ {
				if r.gap && j == r.prefix-2 {
					continue // applied out of order: the one before the last is still missing
				}
				h.AddExecuted(log[j])
			}
			for j := r.prefix; j < r.prefix+r.tail; j++ {
				h.AddRelay(log[j], now)
			}
			if r.gap && c.Src.Bool("gap_received."+hn) {
				h.AddRelay(log[r.prefix-2], now)
			}
			switch r.errant {
			case "own-uuid":
				h.AddExecuted(vs.Txn{UUID: h.UUID, Gno: 1, Size: 100, At: now})
			case "foreign-uuid":
				h.AddExecuted(vs.Txn{UUID: uuidFor(9), Gno: 1, Size: 100, At: now})
			}
			if r.tail > 0 && r.applyDelay > 0 {
				interesting = append(interesting, "tail")
			}
			if r.gap {
				interesting = append(interesting, "gap")
			}
			if r.errant != "none" {
				interesting = append(interesting, "errant")
			}
			reps = append(reps, r)
		}

		// ---- published state
		active := append([]string{}, ha...)
		switch c.Src.Pick("active_list", "consistent", "consistent", "missing-member", "extra-dead-member") {
		case "missing-member":
			if n > 2 {
				drop := ha[1+c.Src.Int("missing", 0, n-2)]
				var a []string
				for _, h := range active {
					if h != drop {
						a = append(a, h)
					}
				}
				active = a
				interesting = append(interesting, "stale-list")
			}
		case "extra-dead-member":
			if n > 2 {
				dead := ha[1+c.Src.Int("dead", 0, n-2)]
				s.crashMySQL(dead)
				interesting = append(interesting, "stale-list")
			}
		}
		s.makeWarm(master, active, semi, wait)
		var replMonRef time.Time
		if asyncExc {
			// the replicated heartbeat table: every server's row is as old as its newest applied transaction
			s.w.Lock()
			for _, hn := range s.hostNames() {
				h := s.w.Hosts[hn]
				h.HasReplMon = true
				h.ReplMonTS = now.Add(-time.Hour)
				for _, t := range h.Binlog {
					if h.Executed.Has(vs.RefKey(t.UUID, ""), t.Gno) && t.At.After(h.ReplMonTS) {
						h.ReplMonTS = t.At
					}
				}
			}
			replMonRef = s.w.Hosts[master].ReplMonTS
			s.w.Unlock()
			b, _ := json.Marshal(fmt.Sprintf("%.3f", float64(replMonRef.UnixMilli())/1000))
			s.zk.RawSet(simNS+"/"+pathMasterReplMonTS, b)
			c.Class("async-allowed-lag-configured")
		}

		// ---- request
		kind := c.Src.Pick("request", "to", "from", "auto-crash", "auto-isolate", "operator-failover", "worker")
		c.Class("request:" + kind)
		target := ha[1+c.Src.Int("target", 0, n-2)]
		cs := &c01State{tickMaster: map[string]string{}, tickActive: map[string][]string{}, tickStmt: map[string]int{}, semi: semi, wait: wait}
		if asyncExc {
			cs.asyncLag, cs.asyncRef = asyncL, replMonRef
		}
		s.installC01Monitor(cs)
		switch kind {
		case "auto-crash":
			s.crashMySQL(master)
		case "auto-isolate":
			s.w.Isolate(master, true)
			l := s.zk.Link(s.procs[master].id)
			l.Set(func(l *vs.ZKLink) { l.Refuse = true })
			l.Sever()
		}
		for _, p := range s.alive() {
			s.run(p, "health")
		}
		switch kind {
		case "to":
			s.opSwitch("", target, false, "operator")
		case "from":
			s.opSwitch(master, "", false, "operator")
		case "operator-failover":
			if c.Src.Bool("failover_to") {
				s.opSwitch("", target, true, "operator")
			} else {
				s.opSwitch(master, "", true, "operator")
			}
		case "worker":
			b, _ := json.Marshal(map[string]any{"from": master, "to": "", "cause": CauseWorker, "initiated_by": "worker", "initiated_at": time.Now()})
			s.zk.RawSet(simNS+"/"+pathCurrentSwitch, b)
		}

		// ---- faults
		nf := c.Src.Int("faults", 0, 3)
		for i := 0; i < nf; i++ {
			f := &vs.Fault{Target: s.hostNames()[c.Src.Int("fault.target", 0, len(s.hostNames())-1)], Class: c01FaultClasses[c.Src.Int("fault.class", 0, len(c01FaultClasses)-1)],
				Nth: c.Src.Int("fault.nth", 1, 3), Kind: "err", Sticky: c.Src.Int("fault.sticky", 0, 3) == 0}
			switch c.Src.Pick("fault.kind", "1205", "1040", "1105", "hang", "cut-before", "cut-after") {
			case "1205":
				f.Code = 1205
			case "1040":
				f.Code = 1040
			case "1105":
				f.Code = 1105
			case "hang":
				f.Kind = "hang"
			case "cut-before":
				f.Kind = "cut-before"
			case "cut-after":
				f.Kind = "cut-after"
			}
			s.w.AddFault(f)
		}
		if nf > 0 {
			interesting = append(interesting, "fault")
		}
		if c.Src.Int("crash_at_call", 0, 4) == 0 {
			// node loss at a call boundary, addressed schedule-independently: the k-th statement
			// of a class reaching a host takes a (possibly different) server down
			k := c.Src.Int("crash.k", 1, 4)
			at := ha[c.Src.Int("crash.at_host", 0, n-1)]
			class := c01FaultClasses[c.Src.Int("crash.class", 0, len(c01FaultClasses)-1)]
			victim := ha[c.Src.Int("crash.victim", 0, n-1)]
			cnt := 0
			s.w.OnCall = func(issuer, tgt, cl string, seq int) string {
				if tgt == at && cl == class {
					cnt++
					if cnt == k {
						go s.crashMySQL(victim)
					}
				}
				return ""
			}
			interesting = append(interesting, "node-loss-at-call")
		}
		if c.Src.Int("zk_fault", 0, 5) == 0 {
			k := c.Src.Int("zk_fault.k", 1, 25)
			act := []vs.ZKAction{vs.ZKCutBefore, vs.ZKCutAfter}[c.Src.Int("zk_fault.kind", 0, 1)]
			cnt := 0
			s.zk.Intercept = func(r *vs.ZKReq) vs.ZKAction {
				if r.Op == vs.OpGetData || r.Op == vs.OpChildren2 || r.Op == vs.OpExists {
					return vs.ZKProceed
				}
				cnt++
				if cnt == k {
					return act
				}
				return vs.ZKProceed
			}
			interesting = append(interesting, "zk-fault")
		}

		cs.faultFree = nf == 0 && s.w.OnCall == nil && s.zk.Intercept == nil
		// ---- the daemons process it
		order := s.alive()
		first := c.Src.Int("first_ticker", 0, len(order)-1)
		order[0], order[first] = order[first], order[0]
		rounds := c.Src.Int("rounds", 3, 8)
		for r := 0; r < rounds; r++ {
			for _, p := range order {
				if !p.dead {
					s.c01Tick(cs, p)
				}
			}
			for _, p := range s.alive() {
				s.run(p, "health")
			}
			s.advance(2 * time.Second)
			s.raise()
		}
		if u := s.unknownStatements(); len(u) > 0 {
			c.Violation("harness-unknown-statement", "calibration: fake MySQL did not recognise %v", u)
		}
		if len(s.panics) > 0 {
			c.Class("panic-in-daemon(C20)")
			return
		}
		sort.Strings(interesting)
		for _, x := range interesting {
			c.Class("has:" + x)
		}
		if cs.sawSplitBrain {
			c.Class("split-brain-frozen-quorum")
			c.NonTrivial()
		}
		if len(cs.promotions) > 0 {
			c.Class("promoted")
			if len(interesting) > 0 {
				c.NonTrivial()
			}
		} else {
			c.Class("not-promoted")
		}
		c.Sample(map[string]any{"hosts": n, "semi": semi, "wait": wait, "request": kind, "replicas": fmt.Sprintf("%+v", reps), "active": active,
			"faults": nf, "promotions": fmt.Sprintf("%+v", cs.promotions)})
	})
}
