//go:build verif

package app

import (
	"fmt"
	"os"
	"strings"
	"testing"
	"time"

	vs "github.com/yandex/mysync/internal/verifsim"
)

func (s *sim) stateOf(procID string) string {
	for _, p := range s.all {
		if p.id == procID {
			return fmt.Sprint(p.app.state)
		}
	}
	return "?"
}

// aliveMasters: ground truth of what leaveMaintenance counts (world lock held): servers that
// are up and have no replication channel.
func (s *sim) aliveMasters() []string {
	var ms []string
	for _, n := range s.hostNames() {
		if h := s.w.Hosts[n]; h.Up && h.Chan == nil {
			ms = append(ms, n)
		}
	}
	return ms
}

// TestVerifC09: maintenance freezes automation; leaving re-learns the real master.
func TestVerifC09(t *testing.T) {
	stt := vs.NewStats(t, "C09")
	stt.Rule = "semi-sync cluster of 3 HA hosts converged by the real daemons; the operator files a maintenance request (full or light; semi-sync disabled on entry or not), racing with a switch request or a crash; then 8-40 actions from {loop body of a drawn process, full round, mysync kill + restart, ZooKeeper down/up, ZooKeeper cut of one host, mysqld crash/start, operator moves the master by hand / creates a second master / stops a replica's threads, operator files switch --to or a forced failover, client write, time jump}, then should_leave and rounds until the request is gone; oracles: FULL mode, from the moment the request carries mysync_paused until should_leave is set: no mutating statement from any mysync process reaches any server, no mysync client writes master or active_nodes; LIGHT mode while acknowledged: no failover request is created by mysync, no pending failover request (also operator-forced) is executed (no promotion), and a planned switchover on a healthy cluster still completes; LEAVE: the request is deleted by mysync only when exactly one server is an alive master in ground truth, the recorded master is that server and the active list is non-empty and names no server that is down at that moment; with several masters the emergency file appears and the request stays; non-trivial = the acknowledged window contained a restart, an outage, a crash or a manual topology change"
	stt.Assumptions = simAssumptions
	stt.Check(t, vs.CheckOpts{Bubble: true}, func(c *vs.Case) {
		ha := []string{"h1", "h2", "h3"}
		light := c.Src.Int("light_mode", 0, 2) == 0
		disableSS := c.Src.Bool("disable_semi_sync_on_entry")
		o := simOpts{HA: ha, LogLevel: simLogLevel(), Cfg: map[string]string{"disable_semi_sync_replication_on_maintenance": fmt.Sprint(disableSS), "failover_cooldown": "0s", "resetup_crashed_hosts": "false"}}
		dir, _ := os.MkdirTemp("", "verifsim")
		defer os.RemoveAll(dir)
		s := newSim(c, c.RTOrT(t), dir, o)
		defer s.close()
		if !s.converge(40) {
			c.Violation("harness-no-convergence", "calibration: no convergence from a cold start")
		}
		s.traceFrom = s.w.StmtLen()
		if light {
			c.Class("mode:light")
		} else {
			c.Class("mode:full")
		}
		// ---- monitors
		acked := func() *Maintenance {
			m := s.currentMaint()
			if m != nil && m.MySyncPaused && !m.ShouldLeave {
				return m
			}
			return nil
		}
		frozen := false // full maintenance acknowledged and not yet asked to leave (maintained by the driver below, between bodies)
		lightOn := false
		settings := func(h *vs.MyHost) string {
			ch := "none"
			if h.Chan != nil {
				ch = fmt.Sprintf("%s io=%v sql=%v", h.Chan.Source, h.Chan.IODesired, h.Chan.SQLDesired)
			}
			return fmt.Sprintf("read_only=%v super_read_only=%v offline_mode=%v semi_sync_master=%v semi_sync_slave=%v wait_count=%d flush_log=%d sync_binlog=%d channel{%s}", h.RO, h.SRO, h.Offline, h.SSMaster, h.SSSlave, h.SSWait, h.FlushLog, h.SyncBin, ch)
		}
		before := map[int]string{}
		everPaused := map[string]bool{} // processes that have been in the maintenance state
		s.w.AfterStmt = func(w *vs.MyWorld, st *vs.Stmt, h *vs.MyHost) {
			b, ok := before[st.Seq]
			delete(before, st.Seq)
			// judged by effect: a statement that leaves every setting as it was changes nothing
			if ok && frozen && h != nil && b != settings(h) {
				sig := "c09-change-during-full-maintenance@" + st.Class
				if !everPaused[st.Issuer] && s.stateOf(st.Issuer) == fmt.Sprint(stateLost) {
					// known finding: a process that had not yet noticed the acknowledgement when the
					// coordination service went away fences its node
					sig = "c09-change-during-full-maintenance@lost-before-noticing"
				}
				s.report(sig, "full maintenance is acknowledged, yet %s (state %s) sends %q to %s: %s => %s", st.Issuer, s.stateOf(st.Issuer), st.Query, st.Target, b, settings(h))
			}
		}
		s.w.OnStatement = func(w *vs.MyWorld, st *vs.Stmt, h *vs.MyHost) {
			if frozen && st.Mutating && h != nil {
				before[st.Seq] = settings(h)
			}
			if lightOn && st.Class == "set_writable" && st.Target != s.masterKey() {
				if sw := s.currentSwitch(); sw == nil || sw.MasterTransition == FailoverTransition {
					s.report("c09-failover-during-light-maintenance", "light maintenance is acknowledged, yet %s promotes %s (pending request: %+v)", st.Issuer, st.Target, sw)
				}
			}
		}
		mutSeen := s.zk.MutLen()
		checkZK := func() {
			muts := s.zk.MutSnapshot()
			for ; mutSeen < len(muts); mutSeen++ {
				m := muts[mutSeen]
				if m.Client == "raw" || m.Op == vs.OpExpire {
					continue
				}
				rel := strings.TrimPrefix(m.Path, simNS+"/")
				if frozen && (rel == pathMasterNode || rel == pathActiveNodes) {
					c.Violation("c09-coordination-write-during-full-maintenance@"+rel, "full maintenance is acknowledged, yet %s does %s on %s (%s)", m.Client, vs.OpName(m.Op), rel, m.Data)
				}
				if lightOn && rel == pathCurrentSwitch && m.Op == vs.OpCreate && strings.Contains(string(m.Data), `"`+string(FailoverTransition)+`"`) {
					c.Violation("c09-failover-filed-during-light-maintenance", "light maintenance is acknowledged, yet %s files a failover request: %s", m.Client, m.Data)
				}
			}
		}
		sync := func() {
			// window flags follow the coordination tree; evaluated between bodies, i.e. a body
			// that itself acknowledges the request is not judged by it
			m := acked()
			frozen = m != nil && !m.IsLightMode()
			lightOn = m != nil && m.IsLightMode()
		}
		interesting := false
		body := func(p *simProc, kind string) {
			checkZK()
			sync()
			s.run(p, kind)
			if p.app.state == stateMaintenance {
				everPaused[p.id] = true
			}
			checkZK()
			s.raise()
			sync()
		}
		round := func() {
			for _, p := range s.alive() {
				body(p, "health")
			}
			for _, p := range s.alive() {
				body(p, "tick")
				body(p, "recovery")
			}
			s.advance(2 * time.Second)
		}
		// ---- entry, racing with a request or a failure
		switch c.Src.Pick("racing_with_entry", "nothing", "nothing", "switch-to", "crash-master", "crash-replica") {
		case "switch-to":
			s.opSwitch("", "h2", false, "operator")
		case "crash-master":
			s.crashMySQL(s.masterKey())
		case "crash-replica":
			s.crashMySQL("h3")
		}
		mode := MaintenanceMode("")
		if light {
			mode = LightMode
		}
		s.opMaintenance(mode)
		// the window opens the moment the manager acknowledges: the other processes have not
		// necessarily noticed yet
		for i := 0; i < 12 && acked() == nil; i++ {
			for _, p := range s.alive() {
				body(p, "health")
			}
			for _, p := range s.alive() {
				if acked() == nil {
					body(p, "tick")
				}
			}
			if acked() == nil {
				s.advance(2 * time.Second)
			}
		}
		if acked() == nil {
			c.Class("never-acknowledged")
			return
		}
		sync()
		// ---- the window
		steps := c.Src.Int("steps", 8, 40)
		zkDown := false
		plannedAt, plannedTo := -1, ""
		for i := 0; i < steps; i++ {
			act := c.Src.Pick("action", "round", "round", "body", "body", "restart-mysync", "zk-down", "zk-up", "zk-cut-host", "crash", "start", "move-master-by-hand", "second-master", "stop-threads", "switch-to", "forced-failover", "write", "advance")
			switch act {
			case "round":
				round()
			case "body":
				ps := s.alive()
				body(ps[c.Src.Int("body.proc", 0, len(ps)-1)], c.Src.Pick("body.kind", "tick", "tick", "recovery", "health"))
			case "restart-mysync":
				hn := ha[c.Src.Int("restart.host", 0, 2)]
				if p := s.procs[hn]; p != nil {
					s.killProc(p)
				}
				s.startProc(hn)
				interesting = true
			case "zk-down":
				s.zk.SetDown(true)
				zkDown, interesting = true, true
			case "zk-up":
				s.zk.SetDown(false)
				zkDown = false
			case "zk-cut-host":
				if p := s.procs[ha[c.Src.Int("cut.host", 0, 2)]]; p != nil {
					refuse := c.Src.Bool("cut.on")
					l := s.zk.Link(p.id)
					l.Set(func(l *vs.ZKLink) { l.Refuse = refuse })
					if refuse {
						l.Sever()
						interesting = true
					}
				}
			case "crash":
				s.crashMySQL(ha[c.Src.Int("crash.host", 0, 2)])
				interesting = true
			case "start":
				for _, hn := range ha {
					s.w.Lock()
					up := s.w.Hosts[hn].Up
					s.w.Unlock()
					if !up {
						s.startMySQL(hn, false)
					}
				}
			case "move-master-by-hand":
				// the operator promotes another server and re-points the others (allowed in maintenance)
				nm := ha[c.Src.Int("move.to", 0, 2)]
				s.w.Lock()
				if s.w.Hosts[nm].Up {
					for _, hn := range ha {
						h := s.w.Hosts[hn]
						if hn == nm {
							h.Chan, h.RO, h.SRO, h.Offline = nil, false, false, false
						} else if h.Up {
							h.Chan = vs.NewChannel(nm, true)
							h.RO, h.SRO = true, true
						}
					}
					s.w.SettleLocked()
					interesting = true
				}
				s.w.Unlock()
			case "second-master":
				hn := ha[c.Src.Int("second.host", 0, 2)]
				s.w.Lock()
				if h := s.w.Hosts[hn]; h.Up {
					h.Chan, h.RO, h.SRO = nil, false, false
					interesting = true
				}
				s.w.Unlock()
			case "stop-threads":
				hn := ha[c.Src.Int("stop.host", 0, 2)]
				s.w.Lock()
				if h := s.w.Hosts[hn]; h.Chan != nil {
					h.Chan.IODesired, h.Chan.SQLDesired = false, false
				}
				s.w.Unlock()
			case "switch-to":
				to := ha[c.Src.Int("switch.host", 0, 2)]
				if s.opSwitch("", to, false, "operator") && plannedAt < 0 {
					plannedAt, plannedTo = i, to
				}
			case "forced-failover":
				s.opSwitch("", "", true, "operator")
			case "write":
				s.w.ClientWrite(s.masterKey(), 200)
			case "advance":
				s.advance([]time.Duration{5 * time.Second, 30 * time.Second, 90 * time.Second}[c.Src.Int("advance", 0, 2)])
			}
			checkZK()
			s.raise()
			sync()
		}
		_ = plannedAt
		_ = plannedTo
		if zkDown {
			s.zk.SetDown(false)
		}
		for _, hn := range ha {
			if p := s.procs[hn]; p != nil {
				s.zk.Link(p.id).Set(func(l *vs.ZKLink) { l.Refuse = false })
			}
		}
		// ---- leave
		if c.Src.Bool("start_everything_before_leave") {
			for _, hn := range ha {
				s.w.Lock()
				up := s.w.Hosts[hn].Up
				s.w.Unlock()
				if !up {
					s.startMySQL(hn, false)
				}
			}
		}
		s.opAbort() // a request left over from the window is not part of the leave clause
		s.opLeaveMaintenance()
		sync()
		leftBy := ""
		for i := 0; i < 12 && leftBy == "" && s.currentMaint() != nil; i++ {
			for _, p := range s.alive() {
				s.w.Lock()
				s.w.SettleLocked()
				masters := s.aliveMasters()
				s.w.Unlock()
				emerge0 := s.hostFileExists(p.host, "emerge")
				mut0 := s.zk.MutLen()
				stmt0 := s.w.StmtLen()
				was := p.app.state
				s.run(p, "tick")
				s.raise()
				// the process looked at every alive master in this iteration (a paused process sends nothing)
				sawAll := true
				for _, m := range masters {
					ok := false
					for _, st := range s.w.StmtsSince(stmt0) {
						if st.Issuer == p.id && st.Target == m && st.Class == "replica_status" && st.Outcome == "ok" {
							ok = true
						}
					}
					sawAll = sawAll && ok
				}
				deleted := false
				for _, m := range s.zk.MutSnapshot()[mut0:] {
					if m.Path == simNS+"/"+pathMaintenance && m.Op == vs.OpDelete && m.Client != "raw" {
						deleted = true
					}
				}
				if deleted {
					leftBy = p.id
					c.Class(fmt.Sprintf("left-with-%d-alive-masters", len(masters)))
					if len(masters) != 1 {
						s.dumpTrace(s.traceFrom)
						c.Violation("c09-left-without-exactly-one-master", "%s left maintenance while the alive masters were %v\n%s", p.id, masters, s.describe())
					}
					if m := s.masterKey(); m != masters[0] {
						c.Violation("c09-left-with-wrong-recorded-master", "%s left maintenance: the only alive master is %s, recorded master is %q\n%s", p.id, masters[0], m, s.describe())
					}
					if a := s.activeNodes(); len(a) == 0 {
						c.Violation("c09-left-with-empty-active-list", "%s left maintenance with an empty active list", p.id)
					}
					// "rebuilt": made from what is there now, not carried over - a server that is down at
					// this moment cannot be a member (the keep-while-failing rule needs an old list)
					s.w.Lock()
					for _, a := range s.activeNodes() {
						if h := s.w.Hosts[a]; a != s.masterKey() && (h == nil || !h.Up) {
							s.w.Unlock()
							s.dumpTrace(s.traceFrom)
							c.Violation("c09-left-with-dead-member-in-the-rebuilt-list", "%s left maintenance with active list %v although %s is down\n%s", p.id, s.activeNodes(), a, s.describe())
						}
					}
					s.w.Unlock()
					break
				}
				if len(masters) > 1 && was == stateMaintenance && sawAll && !emerge0 && !s.hostFileExists(p.host, "emerge") && len(s.panics) == 0 {
					s.dumpTrace(s.traceFrom)
					c.Violation("c09-many-masters-without-emergency-file", "%s tried to leave maintenance with alive masters %v: the request stays, but no emergency file was written\n%s", p.id, masters, s.describe())
				}
				if len(masters) != 1 {
					c.Class(fmt.Sprintf("leave-refused-with-%d-alive-masters", len(masters)))
				}
			}
			s.advance(2 * time.Second)
		}
		if len(s.panics) > 0 {
			c.Class("panic-in-daemon(C20)")
		}
		if u := s.unknownStatements(); len(u) > 0 {
			c.Violation("harness-unknown-statement", "calibration: fake MySQL did not recognise %v", u)
		}
		if interesting {
			c.NonTrivial()
		}
	})
}

// TestVerifC09Light: under acknowledged light maintenance repairs and planned switchovers go on.
func TestVerifC09Light(t *testing.T) {
	stt := vs.NewStats(t, "C09")
	stt.Rule = "semi-sync cluster of 3 HA hosts, light maintenance acknowledged, no faults; a drawn sequence of 1-4 operator actions from {planned switch --to a replica, planned switch --from the master, a replica's replication threads stopped by hand, a replica made writable by hand, client write}, each followed by up to 25 fault-free rounds; oracle (bounded progress in a fault-free history): a planned switchover on the healthy cluster completes (the recorded master moves as asked, the request disappears), stopped threads run again, the writable replica is read-only again; throughout no failover request appears; non-trivial = at least one switchover or repair was asked for"
	stt.Assumptions = simAssumptions
	stt.Check(t, vs.CheckOpts{Bubble: true}, func(c *vs.Case) {
		ha := []string{"h1", "h2", "h3"}
		o := simOpts{HA: ha, LogLevel: simLogLevel(), Cfg: map[string]string{"failover_cooldown": "0s", "resetup_crashed_hosts": "false"}}
		dir, _ := os.MkdirTemp("", "verifsim")
		defer os.RemoveAll(dir)
		s := newSim(c, c.RTOrT(t), dir, o)
		defer s.close()
		if !s.converge(40) {
			c.Violation("harness-no-convergence", "calibration: no convergence from a cold start")
		}
		s.traceFrom = s.w.StmtLen()
		s.opMaintenance(LightMode)
		for i := 0; i < 10; i++ {
			s.round(true)
			if m := s.currentMaint(); m != nil && m.MySyncPaused {
				break
			}
		}
		if m := s.currentMaint(); m == nil || !m.MySyncPaused {
			c.Violation("c09-light-maintenance-not-acknowledged", "light maintenance was not acknowledged within 10 fault-free rounds: %+v", m)
		}
		mut0 := s.zk.MutLen()
		n := c.Src.Int("actions", 1, 4)
		asked := false
		for i := 0; i < n; i++ {
			// every request is made on a healthy, converged cluster (the premise of the clause)
			for k := 0; k < 25 && !s.converged(); k++ {
				s.round(true)
			}
			if !s.converged() {
				c.Class("not-converged-before-an-action")
				break
			}
			master := s.masterKey()
			var reps []string
			for _, h := range ha {
				if h != master {
					reps = append(reps, h)
				}
			}
			r := reps[c.Src.Int("replica", 0, len(reps)-1)]
			act := c.Src.Pick("action", "switch-to", "switch-from", "stop-threads", "writable-replica", "write")
			c.Class("action:" + act)
			done := func() bool { return true }
			switch act {
			case "switch-to":
				s.opSwitch("", r, false, "operator")
				done = func() bool { return s.masterKey() == r && s.currentSwitch() == nil }
				asked = true
			case "switch-from":
				s.opSwitch(master, "", false, "operator")
				done = func() bool { return s.masterKey() != master && s.currentSwitch() == nil }
				asked = true
			case "stop-threads":
				s.w.Lock()
				if ch := s.w.Hosts[r].Chan; ch != nil {
					ch.IODesired, ch.SQLDesired = false, false
				}
				s.w.Unlock()
				done = func() bool {
					s.w.Lock()
					defer s.w.Unlock()
					ch := s.w.Hosts[r].Chan
					return ch != nil && ch.IODesired && ch.SQLDesired
				}
				asked = true
			case "writable-replica":
				s.w.Lock()
				s.w.Hosts[r].RO, s.w.Hosts[r].SRO = false, false
				s.w.Unlock()
				done = func() bool {
					s.w.Lock()
					defer s.w.Unlock()
					return s.w.Hosts[r].RO
				}
				asked = true
			case "write":
				s.w.ClientWrite(master, 200)
			}
			ok := false
			for k := 0; k < 25 && !ok; k++ {
				s.round(true)
				s.raise()
				ok = done()
			}
			if !ok {
				s.dumpTrace(s.traceFrom)
				c.Violation("c09-light-maintenance-blocks@"+act, "acknowledged light maintenance, fault-free: %q (replica %s, master %s) was not carried out within 25 rounds; request now %+v\n%s", act, r, master, s.currentSwitch(), s.describe())
			}
		}
		for _, m := range s.zk.MutSnapshot()[mut0:] {
			if m.Client != "raw" && m.Path == simNS+"/"+pathCurrentSwitch && m.Op == vs.OpCreate && strings.Contains(string(m.Data), `"`+string(FailoverTransition)+`"`) {
				c.Violation("c09-failover-filed-during-light-maintenance", "light maintenance is acknowledged, yet %s files a failover request: %s", m.Client, m.Data)
			}
		}
		if m := s.currentMaint(); m == nil || !m.IsLightMode() {
			c.Violation("c09-light-maintenance-vanished", "the light maintenance request disappeared without being asked to: %+v", m)
		}
		if len(s.panics) > 0 {
			c.Class("panic-in-daemon(C20)")
		}
		if asked {
			c.NonTrivial()
		}
	})
}
