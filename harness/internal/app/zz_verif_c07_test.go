//go:build verif

package app

import (
	"fmt"
	"os"
	"strings"
	"testing"
	"time"

	vs "github.com/yandex/mysync/internal/verifsim"
)

// callCounter counts the external calls (SQL statements and ZooKeeper write requests) of
// one process and fires at the k-th.
type callCounter struct {
	proc  string
	n     int
	k     int
	fired bool
	// pendingAtFire: the switch request existed when the crash point was reached
	pendingAtFire bool
	fire          func()
	calls         []string
}

func (s *sim) armCallCounter(cc *callCounter) {
	s.w.OnCall = func(issuer, target, class string, seq int) string {
		if issuer != cc.proc || cc.fired {
			return ""
		}
		cc.n++
		if len(cc.calls) < 400 {
			cc.calls = append(cc.calls, "sql:"+target+":"+class)
		}
		if cc.n == cc.k && cc.fire != nil {
			cc.fired = true
			_, cc.pendingAtFire = s.zkGet(pathCurrentSwitch)
			cc.fire()
			return "crash"
		}
		return ""
	}
	s.zk.Intercept = func(r *vs.ZKReq) vs.ZKAction {
		if r.Client != cc.proc || cc.fired || r.Op == vs.OpGetData || r.Op == vs.OpChildren2 || r.Op == vs.OpExists || r.Op == vs.OpClose {
			return vs.ZKProceed
		}
		cc.n++
		if len(cc.calls) < 400 {
			cc.calls = append(cc.calls, "zk:"+vs.OpName(r.Op)+":"+strings.TrimPrefix(r.Path, simNS+"/"))
		}
		if cc.n == cc.k && cc.fire != nil {
			cc.fired = true
			_, cc.pendingAtFire = s.zkGet(pathCurrentSwitch)
			cc.fire()
			if cc.n%2 == 0 {
				return vs.ZKCutAfter // the request took effect, the process never learned
			}
			return vs.ZKCutBefore
		}
		return vs.ZKProceed
	}
}

type c07Scenario struct {
	// oldStaysDown: after an automatic failover the crashed master never comes back
	oldStaysDown bool
	n            int
	cascade      bool
	kind         string // to | from | auto | operator-failover
	gtid         string // equal | tail | catch-up
	wait         int
	// async: semi_sync off; only commits acknowledged by a host that never crashes must survive.
	// windowLag: when the manager dies, every other server's download becomes slow, and clients
	// write to whatever is writable before the successor acts.
	async     bool
	windowLag bool
}

func (sc c07Scenario) String() string {
	return fmt.Sprintf("%dHA cascade=%v %s gtid=%s w=%d old-master-stays-down=%v async=%v window-lag=%v", sc.n, sc.cascade, sc.kind, sc.gtid, sc.wait, sc.oldStaysDown, sc.async, sc.windowLag)
}

var c07Kinds = []string{"to", "from", "auto", "operator-failover"}
var c07Gtids = []string{"equal", "tail", "catch-up"}

// c07Run plays one scenario with the manager dying (or losing ZooKeeper) at its k-th call
// (k=0: no crash, used to measure K). It returns the number of calls seen and a violation.
func c07Run(c *vs.Case, t *testing.T, sc c07Scenario, k int, mode, successor string) (calls int, list []string, sig, msg string) {
	defer func() {
		if c07Inside {
			c.NonTrivial()
			c.Class("crash-inside-procedure")
		}
	}()
	c07Inside = false
	ha := []string{"h1", "h2", "h3", "h4"}[:sc.n]
	o := simOpts{HA: ha, LogLevel: simLogLevel(), Cfg: map[string]string{
		"rpl_semi_sync_master_wait_for_slave_count": fmt.Sprint(sc.wait), "failover": "true", "failover_delay": "0s", "inactivation_delay": "5s", "semi_sync": fmt.Sprint(!sc.async)}}
	if sc.cascade {
		o.Cascade = map[string]string{"c1": ha[sc.n-1]}
	}
	dir, _ := os.MkdirTemp("", "verifsim")
	defer os.RemoveAll(dir)
	s := newSim(c, c.RTOrT(t), dir, o)
	defer s.close()
	if !s.converge(40) {
		return 0, nil, "harness-no-convergence", "calibration: no convergence from a cold start for " + sc.String()
	}
	master := s.masterKey()
	for i := 0; i < 3; i++ {
		s.w.ClientWrite(master, 200)
	}
	target := ha[1]
	s.w.Lock()
	switch sc.gtid {
	case "tail":
		s.w.Hosts[target].ApplyDelay = 6 * time.Second
	case "catch-up":
		s.w.Hosts[target].ApplyDelay = 6 * time.Second
		if sc.n > 2 {
			s.w.Hosts[target].DownloadRate = 120
		}
	}
	s.w.Unlock()
	for i := 0; i < 3; i++ {
		s.w.ClientWrite(master, 200)
	}
	mgr := s.manager()
	if mgr == nil {
		return 0, nil, "harness-no-manager", "calibration: no manager after convergence"
	}
	cc := &callCounter{proc: mgr.id, k: k}
	if k > 0 {
		cc.fire = func() {
			l := s.zk.Link(mgr.id)
			if mode == "kill" {
				mgr.dead = true
				delete(s.procs, mgr.host)
			}
			go func() { // outside the hook: the server locks are held there
				l.Set(func(l *vs.ZKLink) { l.Refuse = true })
				l.Sever()
			}()
		}
	}
	traceFrom := s.w.StmtLen()
	s.traceFrom = traceFrom
	switch sc.kind {
	case "to":
		s.opSwitch("", target, false, "operator")
	case "from":
		s.opSwitch(master, "", false, "operator")
	case "operator-failover":
		s.opSwitch(master, "", true, "operator")
	case "auto":
		s.crashMySQL(master)
	}
	s.armCallCounter(cc)
	if mode == "zk-loss" && k > 0 {
		// losing the coordination service is not a process death: the hook must not kill it
		inner := s.w.OnCall
		s.w.OnCall = func(issuer, tgt, class string, seq int) string {
			inner(issuer, tgt, class, seq)
			return ""
		}
	}
	// the switchover runs
	for r := 0; r < 12; r++ {
		s.round(true)
		if cc.fired {
			break
		}
		if _, pending := s.zkGet(pathCurrentSwitch); !pending && r >= 2 && (sc.kind != "auto" || s.masterKey() != master) {
			break
		}
	}
	calls, list = cc.n, cc.calls
	c07Inside = cc.fired && cc.pendingAtFire
	// What the successor inherits: "promoted-not-recorded" = some node other than the recorded
	// master is already writable (the interrupted manager got past 'SET GLOBAL read_only = 0'
	// but not to the write of the master key). Violations are signed with this window so that a
	// known finding in it cannot hide a violation elsewhere.
	window := "other"
	if cc.fired {
		s.w.Lock()
		mk := s.masterKey()
		for _, hn := range s.hostNames() {
			h := s.w.Hosts[hn]
			if _, casc := s.opts.Cascade[hn]; casc || hn == mk || !h.Up {
				continue
			}
			if !h.RO {
				window = "promoted-not-recorded"
			} else if h.Chan == nil && window == "other" {
				window = "reset-not-writable" // RESET REPLICA ALL done, not yet writable
			}
		}
		s.w.Unlock()
		window += fmt.Sprintf("/%dHA", sc.n)
		c.Class("window:" + window)
	}
	if k > 0 && !cc.fired {
		c.Class("crash-point-beyond-procedure")
	}
	s.w.OnCall, s.zk.Intercept = nil, nil
	if cc.fired {
		switch successor {
		case "same-host-now":
			if mode == "kill" {
				s.startProc(mgr.host)
			} else {
				s.zk.Link(mgr.id).Set(func(l *vs.ZKLink) { l.Refuse = false })
			}
		case "other-host":
			for i := 0; i < 6; i++ {
				s.round(true)
			}
			if mode == "kill" {
				s.startProc(mgr.host)
			} else {
				s.zk.Link(mgr.id).Set(func(l *vs.ZKLink) { l.Refuse = false })
			}
		}
	}
	if sc.async {
		// without semi-sync a commit acknowledged by a server that crashes may be lost by design
		s.excuseWritesOn = map[string]bool{}
		if sc.kind == "auto" {
			s.excuseWritesOn[master] = true
		}
	}
	if sc.windowLag && cc.fired {
		s.w.Lock()
		for _, hn := range s.hostNames() {
			s.w.Hosts[hn].DownloadRate = 1
		}
		s.w.Unlock()
		for _, hn := range s.hostNames() {
			s.w.ClientWrite(hn, 200)
		}
		s.advance(time.Second)
	}
	if sc.kind == "auto" && !sc.oldStaysDown {
		s.startMySQL(master, true)
	}
	for i := 0; i < 2; i++ {
		s.w.ClientWrite(s.hostNames()[i%len(s.hostNames())], 200)
	}
	if sc.windowLag {
		// downloads recover a little later than the successor starts
		s.round(true)
		s.round(true)
		s.w.Lock()
		for _, hn := range s.hostNames() {
			s.w.Hosts[hn].DownloadRate = 0
		}
		s.w.Unlock()
	}
	s.quiesce(true, 120)
	if u := s.unknownStatements(); len(u) > 0 {
		return calls, list, "harness-unknown-statement", fmt.Sprint(u)
	}
	if len(s.panics) > 0 {
		c.Class("panic-in-daemon(C20)")
		return calls, list, "", ""
	}
	if _, pending := s.zkGet(pathCurrentSwitch); pending {
		s.dumpTrace(traceFrom)
		return calls, list, c07Sig("c07-request-still-pending", window), fmt.Sprintf("%s, manager %s at call %d (%s), successor %s: the switch request is still pending after quiescence\n%s", sc, mode, k, callAt(list, k), successor, s.describe())
	}
	if sig, msg := s.endStateOracle("c07"); sig != "" {
		s.dumpTrace(traceFrom)
		return calls, list, c07Sig(sig, window), fmt.Sprintf("%s, manager %s at call %d (%s), successor %s: %s\n%s", sc, mode, k, callAt(list, k), successor, msg, s.describe())
	}
	return calls, list, "", ""
}

var c07Inside bool

// c07Sig: every end-state failure inherited from a half-done promotion (the promoted node already
// stopped being a replica) has one root cause and one signature per window and cluster size.
func c07Sig(sig, window string) string {
	if strings.HasPrefix(window, "promoted-not-recorded") || strings.HasPrefix(window, "reset-not-writable") {
		return "c07-unresumable-promotion@" + window
	}
	return sig + "@" + window
}

func callAt(list []string, k int) string {
	if k >= 1 && k <= len(list) {
		return list[k-1]
	}
	return "?"
}

// TestVerifC07: a switchover interrupted by the death of the manager (or its loss of
// ZooKeeper) at a drawn external call is finished or rejected by the next manager and the
// cluster ends in the canonical state.
func TestVerifC07(t *testing.T) {
	st := vs.NewStats(t, "C07")
	st.Rule = "scenario = 2-4 HA hosts (+-cascade) x request kind {to, from, automatic after master crash, operator failover} x GTID situation {equal, received-unapplied tail, catch-up needed} x wait count 1-2 x {semi-sync, asynchronous (then only commits acknowledged by a server that never crashes must survive)} x {clients write to whatever is writable between the interruption and the successor's first iteration while downloads are slow, or not}, converged from a cold start by the real daemons with a client workload; the manager is killed (SIGKILL model) or loses ZooKeeper at its k-th external call (SQL statement or ZooKeeper write; a ZooKeeper call is cut before or after taking effect), k drawn from [1,170]; successor = the same host restarted at once, or another host with the restart 6 rounds later; oracle = request no longer pending + C02 end state after quiescence; non-trivial = the crash point fell inside the procedure"
	st.Assumptions = simAssumptions
	st.Check(t, vs.CheckOpts{Bubble: true}, func(c *vs.Case) {
		sc := c07Scenario{n: c.Src.Int("ha_hosts", 2, 4), cascade: c.Src.Int("cascade", 0, 3) == 0, kind: c.Src.Pick("request", c07Kinds...),
			gtid: c.Src.Pick("gtid", c07Gtids...), wait: c.Src.Int("wait_count", 1, 2), oldStaysDown: c.Src.Bool("old_master_stays_down"),
			async: c.Src.Int("async", 0, 3) == 0, windowLag: c.Src.Int("lag_and_writes_in_the_window", 0, 2) == 0}
		k := c.Src.Int("crash_at_call", 1, 170)
		mode := c.Src.Pick("mode", "kill", "kill", "zk-loss")
		succ := c.Src.Pick("successor", "same-host-now", "other-host")
		c.Class("request:" + sc.kind)
		c.Class("mode:" + mode)
		calls, list, sig, msg := c07Run(c, t, sc, k, mode, succ)
		c.Sample(map[string]any{"scenario": sc.String(), "k": k, "call": callAt(list, k), "mode": mode, "successor": succ, "calls_seen": calls})
		if strings.HasPrefix(sig, "harness-") {
			c.Violation(sig, "%s", msg)
		}
		if sig != "" {
			c.Violation(sig, "%s", msg)
		}
	})
}

// TestVerifC07Enumerate: every call boundary of a grid of scenarios (thorough tier).
func TestVerifC07Enumerate(t *testing.T) {
	st := vs.NewStats(t, "C07")
	st.Assumptions = simAssumptions
	grid := []c07Scenario{}
	for _, n := range []int{2, 3} {
		for _, kind := range c07Kinds {
			for _, g := range []string{"equal", "tail"} {
				grid = append(grid, c07Scenario{n: n, kind: kind, gtid: g, wait: 1})
			}
		}
	}
	grid = append(grid, c07Scenario{n: 4, cascade: true, kind: "from", gtid: "catch-up", wait: 2}, c07Scenario{n: 3, cascade: true, kind: "auto", gtid: "tail", wait: 1},
		c07Scenario{n: 3, kind: "auto", gtid: "equal", wait: 1, oldStaysDown: true}, c07Scenario{n: 4, kind: "auto", gtid: "tail", wait: 1, oldStaysDown: true},
		c07Scenario{n: 3, kind: "auto", gtid: "equal", wait: 1, async: true, windowLag: true}, c07Scenario{n: 3, kind: "to", gtid: "equal", wait: 1, async: true, windowLag: true})
	if vs.Tier() != "thorough" {
		// the quick tier enumerates every call boundary of the two most important scenarios
		grid = []c07Scenario{{n: 3, kind: "auto", gtid: "equal", wait: 1, oldStaysDown: true}, {n: 3, kind: "to", gtid: "tail", wait: 1},
			{n: 3, kind: "auto", gtid: "equal", wait: 1, async: true, windowLag: true}}
	}
	maxK := 150
	if v := vs.Cases(0); v > 0 && v < maxK {
		maxK = v // VERIF_CASES bounds k in development runs
	}
	st.Exhaustive = true
	st.Rule = fmt.Sprintf("fault enumeration: for each of %d scenarios (thorough: 2-3 HA hosts x 4 request kinds x {equal, tail} + 2 cascade shapes + old-master-stays-down + asynchronous with writes in the window; quick: automatic failover and switch --to in a 3-node cluster, and an asynchronous automatic failover with client writes in the window between the interruption and the successor) the manager is killed at EVERY external call k in [1,%d] of the procedure (k beyond the procedure's K calls means no crash and is counted trivial) x successor {same host restarted at once, other host with restart 6 rounds later}; oracle: request no longer pending + C02 end state after quiescence; each (scenario,k,successor) cell is visited exactly once", len(grid), maxK)
	var cells [][]vs.Draw
	for si := range grid {
		for k := 1; k <= maxK; k++ {
			for succ := 0; succ < 2; succ++ {
				cells = append(cells, []vs.Draw{{L: "scenario", V: si}, {L: "k", V: k}, {L: "successor", V: succ}})
			}
		}
	}
	beyond := map[int]int{} // scenario -> smallest k seen beyond the procedure (skip the rest)
	st.Enumerate(t, vs.CheckOpts{Bubble: true}, cells, func(c *vs.Case) {
		si, k, su := c.Src.Int("scenario", 0, len(grid)-1), c.Src.Int("k", 1, 1000), c.Src.Int("successor", 0, 1)
		sc := grid[si]
		if b, ok := beyond[si]; ok && k > b+1 {
			c.Class("skipped-beyond-K")
			return
		}
		succ := []string{"same-host-now", "other-host"}[su]
		calls, list, sig, msg := c07Run(c, t, sc, k, "kill", succ)
		if k <= calls {
			c.Class("scenario:" + sc.String())
		} else if b, ok := beyond[si]; !ok || k < b {
			beyond[si] = k
		}
		c.Sample(map[string]any{"scenario": sc.String(), "k": k, "call": callAt(list, k), "successor": succ, "K": calls})
		if sig != "" {
			c.Violation(sig, "%s", msg)
		}
	})
}
