//go:build verif

package optimization

import (
	"context"
	"errors"
	"fmt"
	"sort"
	"testing"
	"time"

	"github.com/rs/zerolog"

	nodestate "github.com/yandex/mysync/internal/app/node_state"
	"github.com/yandex/mysync/internal/config"
	"github.com/yandex/mysync/internal/mysql"
	vs "github.com/yandex/mysync/internal/verifsim"
)

var errInjected = errors.New("injected failure")

// c19Restored: the settings are the master's, or the fully durable defaults the code falls back
// to when the master's settings cannot be read (never less durable than intended).
func c19Restored(rs, master mysql.ReplicationSettings) bool {
	return rs.Equal(&master) || rs.Equal(&mysql.SafeReplicationSettings)
}

type c19Host struct {
	name     string
	rs       mysql.ReplicationSettings
	master   bool
	lag      *float64
	removed  bool // no longer a registered cluster host
	byRun    bool // relaxed values were written by a call of this run and not restored since
	relaxOps int
}

type c19World struct {
	c        *vs.Case
	hosts    map[string]*c19Host
	registry map[string]*DCSState
	master   string
	during   string         // which entry point of the package is running (part of a finding's signature)
	failNext map[string]int // method -> fail the n-th next call
	calls    map[string]int
	found    []string
}

func (w *c19World) fail(method string) bool {
	w.calls[method]++
	if n, ok := w.failNext[method]; ok && w.calls[method] == n {
		return true
	}
	return false
}

// ---- DCS
type c19DCS struct{ w *c19World }

func (d c19DCS) GetHosts() ([]string, error) {
	if d.w.fail("GetHosts") {
		return nil, errInjected
	}
	var hs []string
	for h := range d.w.registry {
		hs = append(hs, h)
	}
	sort.Strings(hs)
	return hs, nil
}
func (d c19DCS) SetState(h string, v *DCSState) error {
	if d.w.fail("SetState") {
		return errInjected
	}
	d.w.registry[h] = v
	return nil
}
func (d c19DCS) GetState(h string) (*DCSState, error) {
	if d.w.fail("GetState") {
		return nil, errInjected
	}
	st, ok := d.w.registry[h]
	if !ok {
		return nil, nil
	}
	cp := *st
	return &cp, nil
}
func (d c19DCS) DeleteHosts(hs ...string) error {
	for _, h := range hs {
		if d.w.fail("DeleteHosts") {
			return errInjected
		}
		if _, ok := d.w.registry[h]; !ok {
			continue
		}
		// the clause: a registered host is dropped only after its settings were restored
		// (or once it is no longer a registered cluster host)
		if x := d.w.hosts[h]; x != nil && !x.removed && !x.master && !c19Restored(x.rs, d.w.hosts[d.w.master].rs) {
			d.w.found = append(d.w.found, fmt.Sprintf("c19-deregistered-while-relaxed@"+d.w.during+"|host %s dropped from the optimisation registry while its settings %+v differ from the master's %+v", h, x.rs, d.w.hosts[d.w.master].rs))
		}
		if x := d.w.hosts[h]; x != nil && c19Restored(x.rs, d.w.hosts[d.w.master].rs) {
			x.byRun = false // dropped in a restored state: whatever differs later is not this run's doing
		}
		delete(d.w.registry, h)
	}
	return nil
}
func (d c19DCS) CreateHosts(hs ...string) error {
	for _, h := range hs {
		if d.w.fail("CreateHosts") {
			return errInjected
		}
		if _, ok := d.w.registry[h]; !ok {
			d.w.registry[h] = &DCSState{}
		}
	}
	return nil
}

// ---- Node
type c19Node struct {
	w *c19World
	h *c19Host
}

func (n c19Node) Host() string { return n.h.name }
func (n c19Node) SetReplicationSettings(rs mysql.ReplicationSettings) error {
	if n.w.fail("SetReplicationSettings") {
		return errInjected
	}
	n.h.rs = rs
	if c19Restored(rs, n.w.hosts[n.w.master].rs) {
		n.h.byRun = false
	}
	return nil
}
func (n c19Node) GetReplicationSettings() (mysql.ReplicationSettings, error) {
	if n.w.fail("GetReplicationSettings") {
		return mysql.ReplicationSettings{}, errInjected
	}
	return n.h.rs, nil
}
func (n c19Node) OptimizeReplication() error {
	if n.w.fail("OptimizeReplication") {
		return errInjected
	}
	n.h.rs = mysql.ReplicationSettings{InnodbFlushLogAtTrxCommit: mysql.OptimalInnodbFlushLogAtTrxCommitValue, SyncBinlog: mysql.OptimalSyncBinlogValue}
	n.h.byRun = true
	n.h.relaxOps++
	return nil
}
func (n c19Node) GetReplicaStatus() (mysql.ReplicaStatus, error) {
	if n.w.fail("GetReplicaStatus") {
		return nil, errInjected
	}
	st := &mysql.ReplicaStatusStruct{}
	if n.h.lag != nil {
		st.Lag.Valid, st.Lag.Float64 = true, *n.h.lag
	}
	return st, nil
}

// ---- Cluster
type c19Cluster struct{ w *c19World }

func (c c19Cluster) GetNode(h string) Node {
	x := c.w.hosts[h]
	if x == nil || x.removed {
		return nil
	}
	return c19Node{c.w, x}
}
func (c c19Cluster) GetState(h string) nodestate.NodeState {
	x := c.w.hosts[h]
	if x == nil || x.removed {
		return nodestate.NodeState{}
	}
	ns := nodestate.NodeState{PingOk: true, IsMaster: x.master}
	rs := x.rs
	ns.ReplicationSettings = &rs
	if !x.master {
		ns.SlaveState = &nodestate.SlaveState{ReplicationLag: x.lag}
	}
	return ns
}
func (c c19Cluster) GetMaster() string { return c.w.master }

// TestVerifC19: replication optimisation never leaves untracked relaxed durability.
func TestVerifC19(t *testing.T) {
	stt := vs.NewStats(t, "C19")
	stt.Rule = "the real Syncer and Controller over in-memory implementations of the package's own DCS / Node / Cluster interfaces: 2-6 hosts (one master), registry entries with status new/enabled over a subset, replica lags on the grid {unknown, 0, 59, 60, 61, 119, 120, 121, 500} (low mark 60s, high mark 120s), current settings equal to the master's / relaxed / other; 3-25 steps from {Sync, Enable, Disable, DisableAll, Wait, lag change, settings changed by hand, role change, host removed from the cluster, status written by an external tool}, with a drawn call of a drawn interface method failing; oracle: at every DeleteHosts the host's settings equal the master's or it is no longer a cluster host; after every Sync that returned nil at most one registered replica is relaxed, no unregistered replica carries relaxed values written by this run, registered hosts whose lag is unknown or below the low mark are deregistered with the master's settings; non-trivial = a Sync returned nil with at least two registered hosts or after an injected failure"
	lagGrid := []float64{-1, 0, 59, 60, 61, 119, 120, 121, 500}
	relaxed := mysql.ReplicationSettings{InnodbFlushLogAtTrxCommit: mysql.OptimalInnodbFlushLogAtTrxCommitValue, SyncBinlog: mysql.OptimalSyncBinlogValue}
	methods := []string{"GetHosts", "SetState", "GetState", "DeleteHosts", "CreateHosts", "SetReplicationSettings", "GetReplicationSettings", "OptimizeReplication", "GetReplicaStatus"}
	// (in a bubble: Controller.Wait polls on a ticker under a context deadline)
	stt.Check(t, vs.CheckOpts{Bubble: true}, func(c *vs.Case) {
		lg := zerolog.Nop()
		cfg := config.OptimizationConfig{LowReplicationMark: 60 * time.Second, HighReplicationMark: 120 * time.Second}
		n := c.Src.Int("hosts", 2, 6)
		w := &c19World{c: c, hosts: map[string]*c19Host{}, registry: map[string]*DCSState{}, failNext: map[string]int{}, calls: map[string]int{}}
		masterRS := mysql.ReplicationSettings{InnodbFlushLogAtTrxCommit: 1, SyncBinlog: 1}
		if c.Src.Int("master_settings_unusual", 0, 5) == 0 {
			masterRS = mysql.ReplicationSettings{InnodbFlushLogAtTrxCommit: c.Src.Int("master_flush", 0, 2), SyncBinlog: []int{0, 100, 1000}[c.Src.Int("master_sync_binlog", 0, 2)]}
		}
		setLag := func(h *c19Host, label string) {
			v := lagGrid[c.Src.Int(label, 0, len(lagGrid)-1)]
			if v < 0 {
				h.lag = nil
			} else {
				h.lag = &v
			}
		}
		var names []string
		for i := 0; i < n; i++ {
			h := &c19Host{name: fmt.Sprintf("h%d", i), master: i == 0, rs: masterRS}
			names = append(names, h.name)
			w.hosts[h.name] = h
			if i == 0 {
				w.master = h.name
				continue
			}
			setLag(h, "lag")
			switch c.Src.Pick("settings", "as-master", "as-master", "relaxed", "other") {
			case "relaxed":
				h.rs = relaxed
			case "other":
				h.rs = mysql.ReplicationSettings{InnodbFlushLogAtTrxCommit: 0, SyncBinlog: 7}
			}
			switch c.Src.Pick("registered", "no", "new", "enabled") {
			case "new":
				w.registry[h.name] = &DCSState{}
			case "enabled":
				w.registry[h.name] = &DCSState{Status: StatusEnabled}
			}
		}
		syncer := NewSyncer(&lg, cfg, c19DCS{w})
		ctl := NewController(cfg, &lg, c19DCS{w}, time.Millisecond)
		cluster := c19Cluster{w}
		raise := func(step string) {
			if len(w.found) > 0 {
				var sig, msg string
				fmt.Sscanf(w.found[0], "%s", &sig)
				for i := 0; i < len(w.found[0]); i++ {
					if w.found[0][i] == '|' {
						sig, msg = w.found[0][:i], w.found[0][i+1:]
						break
					}
				}
				c.Violation(sig, "%s: %s", step, msg)
			}
		}
		sawInteresting := false
		injected := false
		steps := c.Src.Int("steps", 3, 25)
		for i := 0; i < steps; i++ {
			act := c.Src.Pick("action", "sync", "sync", "sync", "enable", "disable", "disable-all", "wait", "lag", "settings-by-hand", "role-change", "remove-host", "external-status", "inject-failure")
			step := fmt.Sprintf("step %d %s", i, act)
			w.during = act
			pick := func() *c19Host { return w.hosts[names[c.Src.Int("host", 1, n-1)]] }
			switch act {
			case "inject-failure":
				m := methods[c.Src.Int("fail.method", 0, len(methods)-1)]
				w.failNext[m] = w.calls[m] + c.Src.Int("fail.nth", 1, 4)
				injected = true
			case "lag":
				setLag(pick(), "lag")
			case "settings-by-hand":
				h := pick()
				h.rs = []mysql.ReplicationSettings{masterRS, relaxed, {InnodbFlushLogAtTrxCommit: 0, SyncBinlog: 7}}[c.Src.Int("by_hand", 0, 2)]
				h.byRun = false
			case "role-change":
				// the master moves (a switchover happened): another live host becomes master
				h := pick()
				if !h.removed {
					w.hosts[w.master].master = false
					zero := 0.0
					w.hosts[w.master].lag = &zero
					h.master, h.lag = true, nil
					w.master = h.name
				}
			case "remove-host":
				if h := pick(); !h.master {
					h.removed = true
				}
			case "external-status":
				h := pick()
				if _, ok := w.registry[h.name]; ok {
					w.registry[h.name] = &DCSState{Status: []Status{StatusNew, StatusEnabled}[c.Src.Int("status", 0, 1)]}
				}
			case "enable":
				_ = ctl.Enable(c19Node{w, pick()})
			case "disable":
				_ = ctl.Disable(c19Node{w, w.hosts[w.master]}, c19Node{w, pick()})
			case "disable-all":
				var nodes []Node
				for _, nm := range names {
					if h := w.hosts[nm]; !h.removed {
						nodes = append(nodes, c19Node{w, h})
					}
				}
				_ = ctl.DisableAll(c19Node{w, w.hosts[w.master]}, nodes)
			case "wait":
				ctx, cancel := context.WithTimeout(context.Background(), 20*time.Millisecond)
				_ = ctl.Wait(ctx, c19Node{w, pick()})
				cancel()
			case "sync":
				mrs := w.hosts[w.master].rs
				type pre struct{ reg, lost, converged bool }
				before := map[string]pre{}
				regCount := 0
				for _, nm := range names {
					h := w.hosts[nm]
					_, reg := w.registry[nm]
					if reg {
						regCount++
					}
					before[nm] = pre{reg, !h.master && h.lag == nil, !h.master && h.lag != nil && *h.lag < 60}
				}
				err := syncer.Sync(cluster)
				raise(step)
				if err != nil {
					c.Class("sync-returned-error")
					break
				}
				if regCount >= 2 || injected {
					sawInteresting = true
				}
				var relaxedReg []string
				for _, nm := range names {
					h := w.hosts[nm]
					if h.master || h.removed {
						continue
					}
					_, reg := w.registry[nm]
					if reg && !c19Restored(h.rs, mrs) {
						relaxedReg = append(relaxedReg, nm)
					}
					if !reg && h.byRun && !c19Restored(h.rs, mrs) {
						c.Violation("c19-untracked-relaxed-replica", "%s: after a successful sync replica %s carries relaxed settings %+v written by mysync but is not in the optimisation registry", step, nm, h.rs)
					}
					if b := before[nm]; b.reg && (b.lost || b.converged) {
						if reg || !c19Restored(h.rs, mrs) {
							c.Violation("c19-converged-or-lost-not-restored", "%s: replica %s was registered with lag unknown=%v converged=%v; after a successful sync registered=%v settings=%+v (master %+v)", step, nm, b.lost, b.converged, reg, h.rs, mrs)
						}
					}
				}
				if len(relaxedReg) > 1 {
					c.Violation("c19-more-than-one-relaxed", "%s: after a successful sync %v are registered and run with settings different from the master's %+v", step, relaxedReg, mrs)
				}
			}
			raise(step)
		}
		if sawInteresting {
			c.NonTrivial()
		}
		if injected {
			c.Class("failure-injected")
		}
	})
}
