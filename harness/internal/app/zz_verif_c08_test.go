//go:build verif

package app

import (
	"fmt"
	"os"
	"testing"
	"time"

	vs "github.com/yandex/mysync/internal/verifsim"
)

var c08Conds = []string{"streaming-semi", "streaming-nonsemi", "stopped", "wrong-source", "refusing", "erroring", "timing-out", "sql-thread-failed", "io-thread-failed"}

// TestVerifC08: a mysync that lost the coordination service fences its node unless provably safe.
func TestVerifC08(t *testing.T) {
	stt := vs.NewStats(t, "C08")
	stt.Rule = "one daemon in the lost state (its ZooKeeper link cut until the session is gone) on a host that is master / HA replica / cascade, cluster of 1-4 HA hosts, semi_sync on/off, disable_set_readonly_on_lost on/off, local wait count 0-2 with the master flag on/off; per other HA host one of {streaming with the replica flag on, streaming with the flag off, stopped, SQL or IO thread failed with an error recorded, streaming from someone else, refusing connections, answering an error, timing out}; the read-only attempt succeeds / fails with 1205 / hangs to the deadline / fails otherwise, with or without commits stuck waiting for a semi-sync ack; a sequence of 1-6 lost-state iterations with conditions changing in between, time advancing across inactivation_delay, reconnection at a drawn moment; oracle = decision table written from the statement applied to what the iteration could observe (ground truth + reachability at its start), plus 'never promotes, re-points or un-fences while disconnected'; non-trivial = a fence was expected, a postponement window was crossed, or stuck commits were present"
	stt.Assumptions = simAssumptions
	stt.Check(t, vs.CheckOpts{Bubble: true}, func(c *vs.Case) {
		n := c.Src.Int("ha_hosts", 1, 4)
		ha := []string{"h1", "h2", "h3", "h4"}[:n]
		semi := c.Src.Int("semi_sync", 0, 2) != 0
		disabled := c.Src.Int("disable_set_readonly_on_lost", 0, 5) == 0
		inact := []time.Duration{5 * time.Second, 30 * time.Second}[c.Src.Int("inactivation_delay", 0, 1)]
		o := simOpts{HA: ha, LogLevel: simLogLevel(), Cfg: map[string]string{"semi_sync": fmt.Sprint(semi), "disable_set_readonly_on_lost": fmt.Sprint(disabled),
			"inactivation_delay": inact.String(), "failover": "false", "db_set_ro_force_timeout": "10s", "db_set_ro_timeout": "10s"}}
		role := c.Src.Pick("local_role", "master", "master", "ha-replica", "cascade")
		if role == "cascade" {
			o.Cascade = map[string]string{"c1": "h1"}
		}
		if role == "ha-replica" && n == 1 {
			role = "master"
		}
		dir, _ := os.MkdirTemp("", "verifsim")
		defer os.RemoveAll(dir)
		s := newSim(c, c.RTOrT(t), dir, o)
		defer s.close()
		x := map[string]string{"master": "h1", "ha-replica": ha[n-1], "cascade": "c1"}[role]
		s.makeWarm("h1", append([]string{}, ha...), semi, 1)
		p := s.procs[x]
		// the daemon learns the cluster, then loses the coordination service
		for i := 0; i < 2; i++ {
			s.run(p, "tick")
			s.run(p, "health")
		}
		l := s.zk.Link(p.id)
		l.Set(func(l *vs.ZKLink) { l.Refuse = true })
		l.Sever()
		s.advance(s.opts.SessionTimeout + 1500*time.Millisecond)
		s.run(p, "tick") // Manager/Candidate -> Lost (and a first lost-state iteration)
		if p.app.state != stateLost {
			c.Violation("harness-not-lost", "calibration: daemon on %s is in state %s after losing ZooKeeper", x, p.app.state)
		}
		// local semi-sync settings
		xh := s.w.Hosts[x]
		if role == "master" {
			// (draws happen before the lock: a draw may unwind the case while shrinking)
			lw, lm, lf := c.Src.Int("local_wait_count", 1, 2), c.Src.Int("local_master_flag", 0, 3) != 0, c.Src.Int("local_was_fenced", 0, 6) == 0
			s.w.Lock()
			xh.SSWait, xh.SSMaster = lw, lm
			xh.RO, xh.SRO = lf, lf
			s.w.Unlock()
		}
		s.traceFrom = s.w.StmtLen()
		var firstUnreachEnd time.Time
		sawFenceExpected, sawWindow, sawStuck := false, false, false
		connected := false
		iters := c.Src.Int("iterations", 1, 6)
		for it := 0; it < iters; it++ {
			// per-replica conditions for this iteration
			s.w.ClearFaults()
			conds := map[string]string{}
			for _, h := range ha {
				if h == x {
					continue
				}
				cond := c.Src.Pick("cond."+h, c08Conds...)
				conds[h] = cond
				s.w.CutPair(x, h, false)
				s.w.Lock()
				hh := s.w.Hosts[h]
				hh.Up = true
				if hh.Chan == nil {
					hh.Chan = vs.NewChannel(x, true)
				}
				src := x
				if role != "master" {
					src = "h1"
				}
				hh.Chan.Source, hh.Chan.IODesired, hh.Chan.SQLDesired, hh.SSSlave = src, true, true, true
				switch cond {
				case "streaming-nonsemi":
					hh.SSSlave = false
				case "stopped":
					hh.Chan.SQLDesired = false
				case "sql-thread-failed":
					// not running AND an error recorded (ReplicationError rather than ReplicationStopped)
					hh.Chan.SQLDesired, hh.Chan.LastSQLErrno, hh.Chan.LastSQLError = false, 1062, "Duplicate entry"
				case "io-thread-failed":
					hh.Chan.IODesired, hh.Chan.LastIOErrno, hh.Chan.LastIOError = false, 13114, "Got fatal error 1236 from source"
				case "wrong-source":
					hh.Chan.Source = "elsewhere"
					for _, y := range ha { // a running channel from another live server, if there is one
						if y != x && y != h && s.w.Hosts[y].Up {
							hh.Chan.Source = y
						}
					}
				case "refusing":
					hh.Up = false
				}
				s.w.SettleLocked()
				s.w.Unlock()
				switch cond {
				case "erroring":
					s.w.AddFault(&vs.Fault{Issuer: p.id, Target: h, Class: "replica_status", Nth: 1, Sticky: true, Kind: "err", Code: 1105})
				case "timing-out":
					s.w.CutPair(x, h, true)
				}
			}
			roOutcome := c.Src.Pick("set_ro_outcome", "ok", "ok", "1205", "hang", "1105")
			switch roOutcome {
			case "1205":
				s.w.AddFault(&vs.Fault{Issuer: p.id, Target: x, Class: "set_ro", Nth: 1, Sticky: true, Kind: "err", Code: 1205})
			case "1105":
				s.w.AddFault(&vs.Fault{Issuer: p.id, Target: x, Class: "set_ro", Nth: 1, Sticky: true, Kind: "err", Code: 1105})
			case "hang":
				s.w.AddFault(&vs.Fault{Issuer: p.id, Target: x, Class: "set_ro", Nth: 1, Kind: "hang"})
			}
			stuck := false
			if role == "master" && c.Src.Int("stuck_commit", 0, 3) == 0 {
				s.w.Lock()
				writable := !xh.RO && !xh.Offline
				s.w.Unlock()
				if writable {
					if wr := s.w.ClientWrite(x, 200); wr.Outcome == vs.WPending {
						stuck, sawStuck = true, true
					}
				}
			}
			if !connected && c.Src.Int("reconnect", 0, 7) == 0 {
				l.Set(func(l *vs.ZKLink) { l.Refuse = false })
				s.advance(3 * time.Second)
				connected = true
			}
			s.advance([]time.Duration{time.Second, 4 * time.Second, 12 * time.Second, 40 * time.Second}[c.Src.Int("advance", 0, 3)])

			// ---- expectation from the statement
			s.w.Lock()
			isMaster := xh.Chan == nil
			wait := xh.SSWait
			wasRO := xh.RO
			stuckNow := len(xh.Pending) > 0
			s.w.Unlock()
			live, unreach, others := 0, 0, 0
			for _, h := range ha {
				if h == x {
					continue
				}
				others++
				switch conds[h] {
				case "streaming-semi":
					live++
				case "streaming-nonsemi":
					if !semi {
						live++
					}
				case "timing-out":
					unreach++
				}
			}
			expect := "fence"
			switch {
			case connected:
				expect = "nothing"
			case n == 1 || role == "cascade":
				expect = "nothing"
			case disabled:
				expect = "nothing"
			case isMaster && semi && live >= wait:
				expect = "nothing"
			case isMaster && !semi && live >= others:
				expect = "nothing"
			}
			r := s.beginTick(p)
			s.finishTick(r)
			stmts := s.w.StmtsSince(r.stmt0)
			var fenced, local []string
			for _, st := range stmts {
				if st.Issuer != p.id {
					continue
				}
				if st.Target != x && st.Mutating {
					s.dumpTrace(r.stmt0)
					c.Violation("c08-touches-other-host", "disconnected daemon on %s sent %q to %s", x, st.Query, st.Target)
				}
				if st.Target == x && st.Mutating {
					local = append(local, st.Class)
					switch st.Class {
					case "set_writable", "offline_off", "change_source", "reset_replica_all", "start_replica", "stop_replica", "start_io", "stop_io", "start_sql", "stop_sql":
						if !connected {
							s.dumpTrace(r.stmt0)
							c.Violation("c08-unfences-or-repoints", "disconnected daemon on %s sent %q to its own server", x, st.Query)
						}
					case "set_ro", "set_ro_nosuper":
						fenced = append(fenced, st.Outcome)
					}
				}
			}
			c.Class("expect:" + expect)
			if connected {
				continue
			}
			if expect == "nothing" {
				if len(local) > 0 {
					s.dumpTrace(r.stmt0)
					c.Violation("c08-fenced-although-safe", "daemon on %s (%s, cluster of %d, semi_sync=%v, disabled=%v, wait count %d, live group %d of %d) must change nothing but sent %v; replicas: %v",
						x, role, n, semi, disabled, wait, live, others, local, conds)
				}
				firstUnreachEnd = time.Time{}
				continue
			}
			sawFenceExpected = true
			if len(fenced) == 0 {
				// postponement is allowed only while some replica timed out, for at most inactivation_delay
				if unreach > 0 && firstUnreachEnd.IsZero() {
					firstUnreachEnd = r.t1
				}
				allowed := unreach > 0 && r.t0.Sub(firstUnreachEnd) <= inact
				if unreach > 0 && !firstUnreachEnd.IsZero() && r.t0.Sub(firstUnreachEnd) > inact/2 {
					sawWindow = true
				}
				if !allowed {
					s.dumpTrace(r.stmt0)
					c.Violation("c08-not-fenced", "daemon on %s (%s, cluster of %d, semi_sync=%v, wait count %d, live group %d of %d, %d replicas timing out, first seen %v before this iteration, inactivation_delay %v) did not send super_read_only=1 to its server; replicas: %v",
						x, role, n, semi, wait, live, others, unreach, r.t0.Sub(firstUnreachEnd), inact, conds)
				}
				continue
			}
			if unreach > 0 && firstUnreachEnd.IsZero() {
				firstUnreachEnd = r.t1
			}
			// a master with commits stuck in the semi-sync wait: offline first, then semi-sync off, then read-only again
			if isMaster && (stuck || stuckNow) && !wasRO && roOutcome != "1105" {
				order := ""
				for _, cl := range local {
					switch cl {
					case "offline_on":
						order += "O"
					case "ss_disable":
						order += "S"
					case "set_ro":
						order += "R"
					}
				}
				idxO, idxS := indexOf(order, 'O'), indexOf(order, 'S')
				if idxO < 0 || idxS < 0 || idxO > idxS || lastIndexOf(order, 'R') < idxS {
					s.w.Lock()
					still := len(xh.Pending)
					s.w.Unlock()
					if still > 0 || idxS >= 0 {
						s.dumpTrace(r.stmt0)
						c.Violation("c08-stuck-commit-sequence", "master %s had commits waiting for a semi-sync ack; expected offline mode, then semi-sync off, then read-only again, got statement order %q (%v)", x, order, local)
					}
				}
			}
			// all statements succeeded => the node ends read-only
			allOK := roOutcome == "ok"
			s.w.Lock()
			ro := xh.RO
			s.w.Unlock()
			if allOK && !stuck && !stuckNow && !ro {
				s.dumpTrace(r.stmt0)
				c.Violation("c08-not-read-only-after-fence", "daemon on %s fenced (%v) with every statement succeeding, but the node is not read-only", x, local)
			}
		}
		if u := s.unknownStatements(); len(u) > 0 {
			c.Violation("harness-unknown-statement", "calibration: fake MySQL did not recognise %v", u)
		}
		if len(s.panics) > 0 {
			c.Class("panic-in-daemon(C20)")
		}
		if sawFenceExpected {
			c.Class("fence-expected")
		}
		if sawWindow {
			c.Class("postponement-window-crossed")
		}
		if sawStuck {
			c.Class("stuck-commits")
		}
		if sawFenceExpected || sawWindow || sawStuck {
			c.NonTrivial()
		}
	})
}

func indexOf(s string, b byte) int {
	for i := 0; i < len(s); i++ {
		if s[i] == b {
			return i
		}
	}
	return -1
}

func lastIndexOf(s string, b byte) int {
	for i := len(s) - 1; i >= 0; i-- {
		if s[i] == b {
			return i
		}
	}
	return -1
}
