//go:build verif

package app

import (
	"encoding/json"
	"fmt"
	"os"
	"sort"
	"strings"
	"sync/atomic"
	"testing"
	"time"

	vs "github.com/yandex/mysync/internal/verifsim"
)

// c04View is what invariants (a) and (b) are evaluated on.
type c04View struct {
	active  []string
	master  string
	ssSlave map[string]bool // reachable HA replicas with rpl_semi_sync_slave_enabled=ON
	wait    int             // acknowledgements the master waits for (0: semi-sync off on the master)
	cfg     int
}

func (v c04View) a() (bool, string) {
	for h, on := range v.ssSlave {
		if on && h != v.master && !contains1(v.active, h) {
			return false, fmt.Sprintf("replica %s has semi-sync acknowledgement enabled and is not in the published list %v", h, v.active)
		}
	}
	return true, ""
}

func (v c04View) b() (bool, string) {
	need := len(v.active) / 2
	if need > v.cfg {
		need = v.cfg
	}
	if v.wait < need {
		return false, fmt.Sprintf("published list %v (configured count %d) implies %d acknowledgements, the master waits for %d", v.active, v.cfg, need, v.wait)
	}
	return true, ""
}

func hasOwn(h *vs.MyHost) bool { _, ok := h.Executed[vs.RefKey(h.UUID, "")]; return ok }

func indexOfStr(l []string, x string) int {
	for i, y := range l {
		if y == x {
			return i
		}
	}
	return 0
}

func contains1(l []string, x string) bool {
	for _, y := range l {
		if y == x {
			return true
		}
	}
	return false
}

// c04Event is one change of something the invariants read, in global order.
type c04Event struct {
	seq   int64
	what  string // "sql:<class>@<host>" or "zk:active_nodes"
	apply func(v *c04View)
}

// TestVerifC04: the published active list and the semi-sync settings across manager iterations
// that complete, die or hit a failing call at a drawn call boundary.
func TestVerifC04(t *testing.T) {
	stt := vs.NewStats(t, "C04")
	stt.Rule = "semi-sync clusters of 2-5 HA hosts (+0-1 cascade), configured count 1-3, both adjustment orders, semi_sync_enable_lag 1000 bytes, inactivation_delay 5s, converged by the real daemons; 1-4 transitions each made of 1-3 events from {replica crash, replica start, replication broken by an SQL error, cure, operator STOP REPLICA, operator RESET REPLICA ALL (flag left on), errant transaction on a replica (divergence), slow download + large transactions (download lag), fast download, client writes, time jump 0/6/20 s}, each followed by 1-4 iterations of every process; the manager's iteration runs clean, or the manager is killed at its k-th external call (SQL statement or ZooKeeper write, k drawn up to the number of calls a clean iteration made), or its k-th statement fails, or the master's mysqld dies at the manager's k-th call; oracle: (a),(b) evaluated on ground truth before and after every manager iteration and replayed over every single change inside it; complete+clean+master healthy and writable+no pending request => (a) and (b) hold after; any iteration without pending maintenance/switch request: held before => hold after; list content after a complete clean iteration (no cascade / marked / diverged / broken or dead beyond the delay / download-lagging member); a member is removed from the list only while the master is up; non-trivial = an iteration changed the list or a semi-sync setting"
	stt.Assumptions = simAssumptions
	stt.Check(t, vs.CheckOpts{Bubble: true}, c04Prop(t))
}

// c04Prop is the history of TestVerifC04, driven by whatever source the case has (generator,
// saved script, or an enumerated cell).
func c04Prop(t *testing.T) func(c *vs.Case) {
	return func(c *vs.Case) {
		n := c.Src.Int("ha_hosts", 2, 5)
		ha := []string{"h1", "h2", "h3", "h4", "h5"}[:n]
		cfgCount := c.Src.Int("configured_count", 1, 3)
		mfirst := c.Src.Bool("master_first_order")
		o := simOpts{HA: ha, LogLevel: simLogLevel(), Cfg: map[string]string{"rpl_semi_sync_master_wait_for_slave_count": fmt.Sprint(cfgCount), "master_first_adjust_ss_order": fmt.Sprint(mfirst),
			"semi_sync_enable_lag": "1000", "inactivation_delay": "5s", "failover": "false", "resetup_crashed_hosts": "false"}}
		if c.Src.Int("cascade", 0, 3) == 0 {
			o.Cascade = map[string]string{"c1": ha[n-1]}
		}
		dir, _ := os.MkdirTemp("", "verifsim")
		defer os.RemoveAll(dir)
		s := newSim(c, c.RTOrT(t), dir, o)
		defer s.close()
		if !s.converge(25) {
			// not a calibration failure here: a cluster that does not reach the canonical state is
			// judged by the same oracles from wherever it is
			c.Class("not-converged-after-25-rounds")
		}
		master := s.masterKey()
		if master == "" {
			c.Violation("harness-no-master", "calibration: no master recorded after 25 rounds from a cold start")
		}
		s.traceFrom = s.w.StmtLen()
		var seq atomic.Int64
		var events []c04Event
		record := false
		view := func() c04View { // ground truth now (no body running)
			v := c04View{active: s.activeNodes(), master: s.masterKey(), ssSlave: map[string]bool{}, cfg: cfgCount}
			s.w.Lock()
			for _, hn := range ha {
				h := s.w.Hosts[hn]
				if hn != v.master && h.Up {
					v.ssSlave[hn] = h.SSSlave
				}
			}
			if m := s.w.Hosts[v.master]; m != nil && m.SSMaster {
				v.wait = m.SSWait
			}
			s.w.Unlock()
			return v
		}
		s.w.AfterStmt = func(w *vs.MyWorld, st *vs.Stmt, h *vs.MyHost) {
			if !record || !st.Mutating || h == nil {
				return
			}
			hn, ss, up, ssm, wt := st.Target, h.SSSlave, h.Up, h.SSMaster, h.SSWait
			events = append(events, c04Event{seq.Add(1), "sql:" + st.Class + "@" + hn, func(v *c04View) {
				if hn == v.master {
					v.wait = 0
					if ssm {
						v.wait = wt
					}
				} else if contains1(ha, hn) && up && v.ssSlave != nil {
					v.ssSlave[hn] = ss
				}
			}})
		}
		var diedAt int64 // global sequence number at which the master died inside the iteration (0: it did not)
		s.zk.OnMutation = func(m vs.ZKMutation) {
			if !record || m.Path != simNS+"/"+pathActiveNodes {
				return
			}
			var l []string
			_ = json.Unmarshal(m.Data, &l)
			if m.Op == vs.OpDelete {
				l = nil
			}
			events = append(events, c04Event{seq.Add(1), "zk:" + vs.OpName(m.Op) + ":active_nodes", func(v *c04View) {
				v.active = l
			}})
		}
		changed := false
		pending := func() bool { return s.currentSwitch() != nil || s.currentMaint() != nil }
		brokenSince, downSince := map[string]time.Time{}, map[string]time.Time{}
		seenBroken, seenDown := map[string]time.Time{}, map[string]time.Time{}
		// a server that was restarted in between starts a new outage: the key carries its start count
		epoch := func(h string) string { return fmt.Sprintf("#%d", s.startNo[h]) }
		// ---- one manager iteration, judged
		managerTick := func(p *simProc, mode string, k int) (calls int) {
			// the delay counts from the end of the first complete iteration in which this manager
			// process saw the failure (its own timer started no later than that)
			t0 := time.Now()
			completed := false
			defer func() {
				if !completed {
					return
				}
				s.w.Lock()
				for _, hn := range ha {
					h := s.w.Hosts[hn]
					// ground truth at the end of this complete iteration; anything else resets the clock
					if !h.Up {
						if seenDown[p.id+hn+epoch(hn)].IsZero() {
							seenDown[p.id+hn+epoch(hn)] = time.Now()
						}
					} else {
						delete(seenDown, p.id+hn+epoch(hn))
					}
					if h.Up && h.Chan != nil && h.Chan.LastSQLErrno != 0 {
						if seenBroken[p.id+hn].IsZero() {
							seenBroken[p.id+hn] = time.Now()
						}
					} else {
						delete(seenBroken, p.id+hn)
					}
				}
				s.w.Unlock()
			}()
			pre := view()
			noChannel := map[string]bool{} // servers without replication channel when the iteration began
			s.w.Lock()
			for _, hn := range ha {
				if h := s.w.Hosts[hn]; h.Up && h.Chan == nil && hn != master {
					noChannel[hn] = true
				}
			}
			s.w.Unlock()
			preA, _ := pre.a()
			preB, _ := pre.b()
			pend0 := pending()
			events = nil
			diedAt = 0
			record = true
			cc := &callCounter{proc: p.id, k: k}
			faultFired := false
			failedClass := ""
			switch mode {
			case "kill":
				cc.fire = func() {
					p.dead = true
					delete(s.procs, p.host)
					l := s.zk.Link(p.id)
					go func() {
						l.Set(func(l *vs.ZKLink) { l.Refuse = true })
						l.Sever()
					}()
				}
			case "master-dies":
				// handled below through OnCall (the process lives on)
			}
			s.armCallCounter(cc)
			if mode == "master-dies" || mode == "fail" {
				cnt := 0
				s.zk.Intercept = nil
				s.w.OnCall = func(issuer, target, class string, sq int) string {
					if issuer != p.id {
						return ""
					}
					cnt++
					cc.n = cnt
					if cnt == k && !faultFired {
						faultFired = true
						failedClass = class
						if mode == "master-dies" {
							s.w.CrashLocked(master)
							diedAt = seq.Add(1)
						} else {
							s.w.Faults = append(s.w.Faults, &vs.Fault{Issuer: p.id, Nth: 1, Kind: "err", Code: 1205})
						}
					}
					return ""
				}
			}
			stBefore := p.app.state
			active0 := pre.active
			s.run(p, "tick")
			record = false
			s.w.OnCall, s.zk.Intercept = nil, nil
			s.w.ClearFaults()
			calls = cc.n
			fired := cc.fired || faultFired
			post := view()
			postA, whyA := post.a()
			postB, whyB := post.b()
			if len(events) > 0 {
				changed = true
			}
			// the single change after which the invariant is false until the end of the iteration
			culprit := func(inv func(v c04View) (bool, string)) string {
				v := pre
				v.ssSlave = map[string]bool{}
				for k2, x := range pre.ssSlave {
					v.ssSlave[k2] = x
				}
				sort.Slice(events, func(i, j int) bool { return events[i].seq < events[j].seq })
				last := "(a change outside the iteration's own calls)"
				ok := true
				for _, e := range events {
					e.apply(&v)
					now, _ := inv(v)
					if ok && !now {
						last = e.what
					}
					ok = now
				}
				return last
			}
			desc := fmt.Sprintf("iteration of %s (%s, mode %s k=%d fired=%v, %d calls); before: list %v wait %d ss-replicas %v; after: list %v wait %d ss-replicas %v", p.id, stBefore, mode, k, fired, calls, pre.active, pre.wait, pre.ssSlave, post.active, post.wait, post.ssSlave)
			how := "complete"
			if fired {
				how = "cut-short" // killed, a failing call, or the master dying: one family
			}
			family := func(op string) string {
				op = strings.Split(op, "@")[0]
				switch {
				case op == "sql:ss_wait_count" || op == "sql:ss_master_off" || op == "sql:ss_disable":
					return "master-requirement-lowered-before-the-list"
				case op == "sql:ss_slave_on" || op == "sql:ss_set_slave":
					return "replica-acknowledgement-enabled-before-the-list"
				case strings.HasPrefix(op, "zk:") && strings.HasSuffix(op, "active_nodes"):
					return "list-published"
				}
				return op
			}
			// qualifier: a listed, reachable member on which acknowledgement is off (download-lagging joiner)
			q := ""
			for _, x := range post.active {
				if on, up := post.ssSlave[x]; up && !on && x != master {
					q = "+listed-member-without-acknowledgement"
				}
			}
			if !pend0 && !pending() && len(s.panics) == 0 {
				if preA && !postA {
					s.dumpTrace(s.traceFrom)
					fam := family(culprit(func(v c04View) (bool, string) { return v.a() }))
					qa := ""
					if fam == "list-published" && fired {
						// a shrunk list published although an acker is left behind: told apart by what went wrong
						switch {
						case mode == "fail" && !vs.MutatingClass[failedClass]:
							qa = "+after-a-failed-read" // known finding A: the replica's state was unknown to the manager
						case mode == "fail":
							qa = "+after-a-failed-write"
						default:
							qa = "+" + mode
						}
						for h, on := range post.ssSlave {
							if on && !contains1(post.active, h) && noChannel[h] {
								qa += "+acker-had-no-channel" // it claimed to be master when the iteration began
							}
						}
					}
					c.Violation("c04-a-destroyed@"+fam+"/"+how+qa, "(a) held before and not after: %s\n%s\n%s", whyA, desc, s.describe())
				}
				s.w.Lock()
				masterUp := s.w.Hosts[master].Up
				s.w.Unlock()
				// a dead master acknowledges nothing: (b) says nothing about it
				if preB && !postB && masterUp {
					s.dumpTrace(s.traceFrom)
					c.Violation("c04-b-destroyed@"+family(culprit(func(v c04View) (bool, string) { return v.b() }))+"/"+how+q, "(b) held before and not after: %s\n%s\n%s", whyB, desc, s.describe())
				}
				s.w.Lock()
				mh := s.w.Hosts[master]
				healthy := mh.Up && !mh.RO && !mh.Offline
				s.w.Unlock()
				if !fired && stBefore == stateManager && p.app.state == stateManager && healthy && s.lockOwner() == p.id {
					completed = true
					if !postA {
						s.dumpTrace(s.traceFrom)
						c.Violation("c04-a-after-complete-iteration", "a complete iteration with a healthy writable master leaves (a) false: %s\n%s\n%s", whyA, desc, s.describe())
					}
					if !postB {
						s.dumpTrace(s.traceFrom)
						c.Violation("c04-b-after-complete-iteration"+q, "a complete iteration with a healthy writable master leaves (b) false: %s\n%s\n%s", whyB, desc, s.describe())
					}
					// list content
					marked := s.markedHosts()
					s.w.Lock()
					for _, x := range post.active {
						if x == master {
							continue
						}
						h := s.w.Hosts[x]
						bad := ""
						switch {
						case h == nil:
							bad = "is not a registered HA host"
						case contains1(marked, x):
							bad = "is marked for recovery"
						case !seenDown[p.id+x+epoch(x)].IsZero() && t0.Sub(seenDown[p.id+x+epoch(x)]) > 6*time.Second && !h.Up:
							bad = fmt.Sprintf("has been down since before this manager's iteration that ended %v before this one began (inactivation delay 5s)", t0.Sub(seenDown[p.id+x+epoch(x)]))
						case !seenBroken[p.id+x].IsZero() && t0.Sub(seenBroken[p.id+x]) > 6*time.Second && h.Up && h.Chan != nil && h.Chan.LastSQLErrno != 0:
							bad = fmt.Sprintf("has not been replicating since before this manager's iteration that ended %v before this one began (inactivation delay 5s)", t0.Sub(seenBroken[p.id+x]))
						case h.Up && hasOwn(h) && !vs.GSubset(h.Executed, mh.Executed):
							bad = "has diverged transactions: " + vs.GText(h.Executed) + " vs master " + vs.GText(mh.Executed)
						}
						if _, casc := s.opts.Cascade[x]; casc {
							bad = "is a cascade replica"
						}
						if bad != "" {
							s.w.Unlock()
							s.dumpTrace(s.traceFrom)
							c.Violation("c04-list-content@"+strings.Fields(bad)[0]+"-"+strings.Fields(bad)[1], "after a complete iteration the published list %v contains %s, which %s\n%s\n%s", post.active, x, bad, desc, s.describe())
						}
					}
					s.w.Unlock()
				}
			}
			// eviction guard: a write of the list made after the master died must not drop a member
			if diedAt > 0 {
				v := c04View{active: active0}
				sort.Slice(events, func(i, j int) bool { return events[i].seq < events[j].seq })
				for _, e := range events {
					prev := v.active
					e.apply(&v)
					if e.seq < diedAt || !strings.HasPrefix(e.what, "zk:") {
						continue
					}
					for _, x := range prev {
						if !contains1(v.active, x) {
							s.dumpTrace(s.traceFrom)
							sig := "c04-evicted-without-master"
							if contains1(s.markedHosts(), x) {
								// the write is SetRecovery's (remove from the list, then mark), which has no guard
								sig += "+by-marking-for-recovery"
							}
							c.Violation(sig, "member %s was removed from the list (%v => %v) after the master had died at the manager's call %d\n%s\n%s", x, prev, v.active, k, desc, s.describe())
						}
					}
				}
			}
			return calls
		}
		// ---- history
		transitions := c.Src.Int("transitions", 1, 4)
		lastCalls := 40
		for tr := 0; tr < transitions; tr++ {
			ne := c.Src.Int("events", 1, 3)
			for e := 0; e < ne; e++ {
				reps := []string{}
				for _, hn := range ha {
					if hn != master {
						reps = append(reps, hn)
					}
				}
				r := reps[c.Src.Int("event.replica", 0, len(reps)-1)]
				ev := c.Src.Pick("event", "crash", "start", "sql-error", "cure", "stop-replica", "errant", "slow-download", "fast-download", "writes", "advance", "swap", "reset-replica-by-hand")
				if ev == "swap" && len(reps) < 2 {
					ev = "writes"
				}
				c.Class("event:" + ev)
				s.w.Lock()
				h := s.w.Hosts[r]
				mh := s.w.Hosts[master]
				switch ev {
				case "crash":
					s.w.Unlock()
					s.crashMySQL(r)
					s.w.Lock()
					if downSince[r].IsZero() {
						downSince[r] = time.Now()
					}
				case "start":
					if !h.Up {
						s.w.Unlock()
						s.startMySQL(r, false)
						s.w.Lock()
						delete(downSince, r)
						for k2 := range seenDown {
							if strings.HasSuffix(k2, r) {
								delete(seenDown, k2)
							}
						}
					}
				case "sql-error":
					if h.Up && h.Chan != nil {
						h.Poison(mh.UUID, mh.NextGno, 1062)
						if brokenSince[r].IsZero() {
							brokenSince[r] = time.Now()
						}
						s.w.Unlock()
						s.w.ClientWrite(master, 300)
						s.w.Lock()
					}
				case "cure":
					h.PoisonSQL2Clear()
					delete(brokenSince, r)
					for k2 := range seenBroken {
						if strings.HasSuffix(k2, r) {
							delete(seenBroken, k2)
						}
					}
				case "stop-replica":
					if h.Chan != nil {
						h.Chan.IODesired, h.Chan.SQLDesired = false, false
					}
				case "reset-replica-by-hand":
					// RESET REPLICA ALL by an operator or a restore: reachable, acknowledgement flag
					// as it was, no replica status any more
					if h.Up {
						h.Chan = nil
					}
				case "errant":
					if h.Up {
						h.AddExecuted(vs.Txn{UUID: h.UUID, Gno: h.NextGno, Size: 100, At: time.Now()})
					}
				case "slow-download":
					h.DownloadRate = 50
					s.w.Unlock()
					for i := 0; i < 4; i++ {
						s.w.ClientWrite(master, 900)
					}
					s.w.Lock()
				case "fast-download":
					for _, hn := range ha {
						s.w.Hosts[hn].DownloadRate = 0
					}
				case "writes":
					s.w.Unlock()
					s.w.ClientWrite(master, 300)
					s.w.ClientWrite(master, 300)
					s.w.Lock()
				case "advance":
					s.w.Unlock()
					s.advance([]time.Duration{0, 6 * time.Second, 20 * time.Second}[c.Src.Int("advance", 0, 2)])
					s.w.Lock()
				case "swap":
					// one member leaves and another host joins in the same iteration: r is taken out
					// first (down beyond the delay), then comes back at the very moment another
					// member diverges
					other := reps[(c.Src.Int("event.replica2", 1, len(reps)-1)+indexOfStr(reps, r))%len(reps)]
					s.w.Unlock()
					s.crashMySQL(r)
					s.advance(8 * time.Second)
					for i := 0; i < 3; i++ {
						for _, p := range s.alive() {
							s.run(p, "health")
						}
						for _, p := range s.alive() {
							s.run(p, "tick")
						}
						s.advance(3 * time.Second)
					}
					s.startMySQL(r, false)
					s.w.Lock()
					if o := s.w.Hosts[other]; o.Up {
						o.AddExecuted(vs.Txn{UUID: o.UUID, Gno: o.NextGno, Size: 100, At: time.Now()})
					}
				}
				s.w.Unlock()
			}
			its := c.Src.Int("iterations", 1, 4)
			for it := 0; it < its; it++ {
				for _, p := range s.alive() {
					s.run(p, "health")
				}
				for _, p := range s.alive() {
					if p.app.state == stateManager || s.lockOwner() == p.id {
						mode := c.Src.Pick("iteration.mode", "clean", "clean", "kill", "fail", "master-dies", "master-dies")
						k := 0
						if mode != "clean" {
							// the iteration that performs a transition makes more calls than the clean one before it
							kmax := lastCalls
							if kmax < 40 {
								kmax = 40
							}
							k = c.Src.Int("iteration.k", 1, kmax+30)
							c.Class("mode:" + mode)
						}
						if calls := managerTick(p, mode, k); mode == "clean" && calls > 0 {
							lastCalls = calls
						}
						if mode == "master-dies" {
							// the master comes back as it was (an operator restart), so that the history goes on
							s.w.Lock()
							up := s.w.Hosts[master].Up
							s.w.Unlock()
							if !up {
								s.startMySQL(master, false)
								s.w.Lock()
								mh := s.w.Hosts[master]
								mh.RO, mh.SRO, mh.Offline = false, false, false
								s.w.Unlock()
							}
						}
						if mode == "kill" && s.procs[p.host] == nil {
							s.startProc(p.host)
						}
					} else {
						s.run(p, "tick")
					}
					s.run(p, "recovery")
					s.raise()
				}
				s.advance(2 * time.Second)
			}
		}
		if len(s.panics) > 0 {
			c.Class("panic-in-daemon(C20)")
		}
		if u := s.unknownStatements(); len(u) > 0 {
			c.Violation("harness-unknown-statement", "calibration: fake MySQL did not recognise %v", u)
		}
		if changed {
			c.NonTrivial()
		}
	}
}

// TestVerifC04Enumerate: the same history with the fault placed at EVERY call boundary of the
// iteration that performs a given membership transition.
func TestVerifC04Enumerate(t *testing.T) {
	stt := vs.NewStats(t, "C04")
	stt.Assumptions = simAssumptions
	stt.Exhaustive = true
	type D = vs.Draw
	clean := func(n int) []D {
		out := []D{{L: "iterations", V: n}}
		for i := 0; i < n; i++ {
			out = append(out, D{L: "iteration.mode", V: "clean"})
		}
		return out
	}
	ev := func(replica int, name string, sub ...D) []D {
		return append([]D{{L: "event.replica", V: replica}, {L: "event", V: name}}, sub...)
	}
	cat := func(parts ...[]D) []D {
		var out []D
		for _, p := range parts {
			out = append(out, p...)
		}
		return out
	}
	// each transition: draws up to (not including) the faulted iteration's mode
	type tr struct {
		name string
		pre  []D
	}
	away := cat([]D{{L: "events", V: 2}}, ev(0, "crash"), ev(0, "advance", D{L: "advance", V: 2}), clean(3)) // replica 0 leaves the list
	transitions := []tr{
		{"join", cat([]D{{L: "transitions", V: 2}}, away, []D{{L: "events", V: 1}}, ev(0, "start"))},
		{"death-beyond-the-delay", cat([]D{{L: "transitions", V: 2}}, []D{{L: "events", V: 1}}, ev(0, "crash"), clean(1), []D{{L: "events", V: 1}}, ev(0, "advance", D{L: "advance", V: 2}))},
		{"broken-replication", cat([]D{{L: "transitions", V: 1}}, []D{{L: "events", V: 1}}, ev(0, "sql-error"))},
		{"divergence", cat([]D{{L: "transitions", V: 1}}, []D{{L: "events", V: 1}}, ev(0, "errant"))},
		{"join-with-download-lag", cat([]D{{L: "transitions", V: 2}}, away, []D{{L: "events", V: 2}}, ev(0, "slow-download"), ev(0, "start"))},
		{"swap", cat([]D{{L: "transitions", V: 1}}, []D{{L: "events", V: 1}}, ev(0, "swap", D{L: "event.replica2", V: 1}))},
		{"replica-loses-its-channel", cat([]D{{L: "transitions", V: 1}}, []D{{L: "events", V: 1}}, ev(0, "reset-replica-by-hand"))},
	}
	shapes := [][2]int{{3, 1}, {5, 2}} // (HA hosts, configured count)
	orders := []bool{true, false}
	modes := []string{"kill", "fail", "master-dies"}
	maxK := 70
	if vs.Tier() != "thorough" {
		transitions = []tr{transitions[0], transitions[1], transitions[5], transitions[6]}
		shapes = shapes[:1]
		orders = orders[:1]
		maxK = 60
	}
	if v := vs.Cases(0); v > 0 && v < maxK {
		maxK = v
	}
	var cells [][]D
	var names []string
	for _, sh := range shapes {
		for _, mf := range orders {
			for _, x := range transitions {
				for _, m := range modes {
					for k := 1; k <= maxK; k++ {
						cells = append(cells, cat([]D{{L: "ha_hosts", V: sh[0]}, {L: "configured_count", V: sh[1]}, {L: "master_first_order", V: mf}, {L: "cascade", V: 1}}, x.pre,
							[]D{{L: "iterations", V: 1}, {L: "iteration.mode", V: m}, {L: "iteration.k", V: k}}))
						names = append(names, fmt.Sprintf("%s n=%d count=%d master-first=%v %s k=%d", x.name, sh[0], sh[1], mf, m, k))
					}
				}
			}
		}
	}
	stt.Rule = fmt.Sprintf("fault enumeration: %d shapes (HA hosts, configured count) x %d adjustment orders x %d membership transitions (%s) x {manager killed, statement fails, master dies} at EVERY call k in [1,%d] of the manager iteration that performs the transition (k beyond the iteration's calls = no fault, counted trivial) = %d cells, each visited once; oracles of TestVerifC04", len(shapes), len(orders), len(transitions), func() string {
		var n []string
		for _, x := range transitions {
			n = append(n, x.name)
		}
		return strings.Join(n, ", ")
	}(), maxK, len(cells))
	prop := c04Prop(t)
	idx := 0
	stt.Enumerate(t, vs.CheckOpts{Bubble: true}, cells, func(c *vs.Case) {
		_ = idx
		prop(c)
	})
	_ = names
}
