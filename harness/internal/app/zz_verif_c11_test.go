//go:build verif

package app

import (
	"encoding/json"
	"fmt"
	"os"
	"sort"
	"strings"
	"testing"
	"time"

	vs "github.com/yandex/mysync/internal/verifsim"
)

// c11Clean: ground truth of "a read-only replica whose transactions are contained in the
// master's and whose replication is not in error" (world lock held).
func (s *sim) c11Clean(x, master string) (bool, string) {
	h, m := s.w.Hosts[x], s.w.Hosts[master]
	switch {
	case h == nil || m == nil:
		return false, "unknown host"
	case !h.Up:
		return false, "server down"
	case h.Chan == nil:
		return false, "no replication channel (not a replica)"
	case !h.RO:
		return false, "not read-only"
	case h.Chan.LastIOErrno != 0 && !h.Chan.IOConnected || h.Chan.LastSQLErrno != 0:
		return false, fmt.Sprintf("replication in error (io errno %d, sql errno %d)", h.Chan.LastIOErrno, h.Chan.LastSQLErrno)
	case !vs.GSubset(h.Executed, m.Executed):
		return false, fmt.Sprintf("holds transactions the master lacks: %s vs master %s", vs.GText(h.Executed), vs.GText(m.Executed))
	}
	return true, ""
}

func (s *sim) markedHosts() []string {
	m := s.zk.Children(simNS + "/" + pathRecovery)
	sort.Strings(m)
	return m
}

// c11JudgeClears looks at the ZooKeeper mutations since mut0 (made while only process p ran a
// loop body): every removal of a recovery mark must be done by the marked host's own mysync
// while the host is clean.
func (s *sim) c11JudgeClears(mut0 int, p *simProc) (cleared []string) {
	for _, m := range s.zk.MutSnapshot()[mut0:] {
		if !strings.HasPrefix(m.Path, simNS+"/"+pathRecovery+"/") || (m.Op != vs.OpDelete && m.Op != vs.OpExpire) {
			continue
		}
		x := strings.TrimPrefix(m.Path, simNS+"/"+pathRecovery+"/")
		cleared = append(cleared, x)
		if p == nil || p.host != x || !strings.HasPrefix(m.Client, p.id) {
			s.c.Violation("c11-mark-cleared-by-another-process", "the recovery mark of %s was removed by %q (running body: %v)", x, m.Client, p)
		}
		master := s.masterKey()
		s.w.Lock()
		s.w.SettleLocked()
		ok, why := s.c11Clean(x, master)
		s.w.Unlock()
		if s.hostFileExists(x, "resetup") {
			ok, why = false, "its resetup file exists"
		}
		if !ok {
			s.dumpTrace(s.traceFrom)
			s.c.Violation("c11-mark-cleared-while-not-clean", "the recovery mark of %s was removed although the host is not a clean read-only replica of %s: %s\n%s", x, master, why, s.describe())
		}
	}
	return cleared
}

// TestVerifC11Check: the marked host's own recovery check over generated relations.
func TestVerifC11Check(t *testing.T) {
	stt := vs.NewStats(t, "C11")
	stt.Rule = "3 HA hosts, recorded master h1 (or, rarely, the marked host itself), host h2 marked for recovery; drawn: relation of h2's executed set to the master's {behind, equal, ahead on the master's server id, diverged by an own transaction, ahead by an own transaction} x replication {none, running, IO stopped, SQL stopped, source down (IO error), SQL error, pointing at h3} x read_only {off, on, super} x stuck semi-sync commits x resetup file present x master reachable or down; 1-3 runs of the real recovery checker of h2's mysync with time jumps (1s/30s/61s) and optional healing in between (catch up, set read-only, resetup tool); oracle: a removal of the mark happens only by h2's own process while h2 is, at that moment, an up, read-only replica without replication error whose executed set is contained in the master's and without resetup file; when h2 is a replica that holds transactions the master lacks or whose replication is in error (master reachable, no file yet, nothing stuck) the run leaves the resetup file and the mark; non-trivial = not (clean and cleared at the first run)"
	stt.Assumptions = simAssumptions
	stt.Check(t, vs.CheckOpts{Bubble: true}, func(c *vs.Case) {
		ha := []string{"h1", "h2", "h3"}
		o := simOpts{HA: ha, LogLevel: simLogLevel()}
		dir, _ := os.MkdirTemp("", "verifsim")
		defer os.RemoveAll(dir)
		s := newSim(c, c.RTOrT(t), dir, o)
		defer s.close()
		s.makeWarm("h1", []string{"h1", "h3"}, true, 1)
		x := "h2"
		rel := c.Src.Pick("relation", "behind", "equal", "ahead-master-uuid", "diverged-own", "ahead-own")
		repl := c.Src.Pick("replication", "none", "running", "running", "io-stopped", "sql-stopped", "source-down", "sql-error", "from-h3")
		ro := c.Src.Int("read_only", 0, 2)
		stuck := c.Src.Int("stuck_commits", 0, 5) == 0
		file := c.Src.Int("resetup_file", 0, 4) == 0
		masterDown := c.Src.Int("master_down", 0, 7) == 0
		selfMaster := c.Src.Int("marked_host_is_recorded_master", 0, 9) == 0
		now := time.Now()
		s.w.Lock()
		mh, h := s.w.Hosts["h1"], s.w.Hosts[x]
		for g := int64(6); g <= 7; g++ {
			mh.AddExecuted(vs.Txn{UUID: uuidFor(0), Gno: g, Size: 300, At: now.Add(-time.Minute)})
		}
		h.ResetData()
		upto := int64(7)
		if rel == "behind" || rel == "diverged-own" {
			upto = 5
		}
		if rel == "ahead-master-uuid" {
			upto = 8
		}
		for g := int64(1); g <= upto; g++ {
			h.AddExecuted(vs.Txn{UUID: uuidFor(0), Gno: g, Size: 300, At: now.Add(-time.Hour)})
		}
		if rel == "diverged-own" || rel == "ahead-own" {
			h.AddExecuted(vs.Txn{UUID: h.UUID, Gno: 1, Size: 100, At: now.Add(-time.Minute)})
		}
		h.ApplyDelay = 1000 * time.Hour
		h.RO, h.SRO, h.Offline = ro >= 1, ro >= 2, true
		h.Chan = vs.NewChannel("h1", true)
		switch repl {
		case "none":
			h.Chan = nil
		case "io-stopped":
			h.Chan.IODesired = false
		case "sql-stopped":
			h.Chan.SQLDesired = false
		case "source-down", "from-h3":
			h.Chan = vs.NewChannel("h3", true)
		case "sql-error":
			h.ApplyDelay = 0
			h.Poison(uuidFor(0), 6, 1062)
		}
		s.w.SettleLocked()
		s.w.Unlock()
		if repl == "source-down" {
			s.crashMySQL("h3")
		}
		if stuck {
			s.w.Lock()
			h.RO, h.SRO, h.Offline, h.SSMaster, h.SSWait = false, false, false, true, 1
			s.w.Unlock()
			s.w.ClientWrite(x, 100)
			s.w.Lock()
			h.RO, h.SRO = ro >= 1, ro >= 2
			s.w.Unlock()
		}
		if file {
			s.writeHostFile(x, "resetup", "")
		}
		master := "h1"
		if selfMaster {
			master = x
			b, _ := json.Marshal(x)
			s.zk.RawSet(simNS+"/"+pathMasterNode, b)
		}
		if masterDown && !selfMaster {
			s.crashMySQL("h1")
		}
		s.zk.RawSet(simNS+"/"+pathRecovery+"/"+x, []byte("null"))
		s.w.Settle()
		c.Class("relation:" + rel)
		c.Class("replication:" + repl)
		p := s.procs[x]
		s.traceFrom = s.w.StmtLen()
		runs := c.Src.Int("runs", 1, 3)
		trivial := true
		for r := 0; r < runs; r++ {
			if r > 0 {
				switch c.Src.Pick("between", "nothing", "catch-up", "set-read-only", "resetup-tool", "master-back") {
				case "catch-up":
					s.w.Lock()
					h.ApplyDelay = 0
					s.w.Unlock()
				case "set-read-only":
					s.w.Lock()
					h.RO, h.SRO = true, true
					s.w.Unlock()
				case "resetup-tool":
					s.resetupTool(x)
				case "master-back":
					s.w.Lock()
					up := mh.Up
					s.w.Unlock()
					if !up {
						s.startMySQL("h1", false)
						s.w.Lock()
						mh.RO, mh.SRO, mh.Offline = false, false, false
						s.w.Unlock()
					}
				}
				s.advance([]time.Duration{time.Second, 30 * time.Second, 61 * time.Second}[c.Src.Int("advance", 0, 2)])
			}
			// ground truth before the run
			s.w.Lock()
			s.w.SettleLocked()
			clean, why := s.c11Clean(x, master)
			isReplica := h.Up && h.Chan != nil
			mUp := s.w.Hosts[master].Up
			pend := len(h.Pending)
			s.w.Unlock()
			fileBefore := s.hostFileExists(x, "resetup")
			mut0 := s.zk.MutLen()
			s.run(p, "recovery")
			s.raise()
			cleared := s.c11JudgeClears(mut0, p)
			_, still := s.zkGet(pathRecovery + "/" + x)
			if len(cleared) > 0 {
				c.Class("mark-cleared")
				if r > 0 || !clean {
					trivial = false
				}
			} else {
				trivial = false
			}
			if still && !clean && isReplica && mUp && !fileBefore && pend == 0 && len(s.panics) == 0 && x != master {
				// holds foreign transactions, or replication in error: resetup asked, mark kept
				needs := !strings.HasPrefix(why, "not read-only")
				if needs && !s.hostFileExists(x, "resetup") {
					s.dumpTrace(s.traceFrom)
					c.Violation("c11-no-resetup-file", "run %d: %s is a marked replica that is not clean (%s) but its recovery check did not write the resetup file\n%s", r, x, why, s.describe())
				}
				if needs {
					c.Class("resetup-file-written")
				}
			}
			if !still && len(cleared) == 0 {
				c.Violation("harness-mark-vanished", "calibration: mark vanished without a delete in the log")
			}
			if !still {
				break
			}
		}
		if len(s.panics) > 0 {
			c.Class("panic-in-daemon(C20)")
		}
		if u := s.unknownStatements(); len(u) > 0 {
			c.Violation("harness-unknown-statement", "calibration: fake MySQL did not recognise %v", u)
		}
		if !trivial {
			c.NonTrivial()
		}
	})
}

// c11History replays the ZooKeeper mutation log from index from and checks, after every
// change: a marked host other than the recorded master is not in the published active list;
// when the master key moves from A to B while A was down for the whole iteration, A is marked.
type c11History struct {
	master string
	active []string
	marked map[string]bool
	next   int
}

func (s *sim) c11InitHistory() *c11History {
	h := &c11History{master: s.masterKey(), active: s.activeNodes(), marked: map[string]bool{}, next: s.zk.MutLen()}
	for _, m := range s.markedHosts() {
		h.marked[m] = true
	}
	return h
}

// downThroughout: hosts that were down when the running iteration began (and still are).
func (s *sim) c11Advance(h *c11History, downThroughout map[string]bool) {
	muts := s.zk.MutSnapshot()
	for ; h.next < len(muts); h.next++ {
		m := muts[h.next]
		rel := strings.TrimPrefix(m.Path, simNS+"/")
		del := m.Op == vs.OpDelete || m.Op == vs.OpExpire || m.Op == vs.OpRawDelete
		switch {
		case rel == pathMasterNode && !del:
			var nm string
			_ = json.Unmarshal(m.Data, &nm)
			if nm != h.master && h.master != "" && downThroughout[h.master] && !h.marked[h.master] {
				s.dumpTrace(s.traceFrom)
				s.c.Violation("c11-dead-old-master-not-marked", "%s recorded %s as master instead of %s, which was down during the whole procedure and so cannot have been confirmed as a clean replica, without marking it for recovery\n%s", m.Client, nm, h.master, s.describe())
			}
			h.master = nm
		case rel == pathActiveNodes && !del:
			h.active = nil
			_ = json.Unmarshal(m.Data, &h.active)
		case strings.HasPrefix(rel, pathRecovery+"/"):
			x := strings.TrimPrefix(rel, pathRecovery+"/")
			if del {
				delete(h.marked, x)
			} else {
				h.marked[x] = true
			}
		default:
			continue
		}
		for _, a := range h.active {
			if h.marked[a] && a != h.master {
				s.dumpTrace(s.traceFrom)
				s.c.Violation("c11-marked-host-in-active-list", "after %s of %s by %s: host %s is marked for recovery, is not the recorded master (%s) and is in the published active list %v", vs.OpName(m.Op), rel, m.Client, a, h.master, h.active)
			}
		}
	}
}

// TestVerifC11Sim: marking, exclusion and clearing over histories of failovers, switchovers,
// crashes and restarts, with the hosts' recovery checks interleaved with manager iterations.
func TestVerifC11Sim(t *testing.T) {
	stt := vs.NewStats(t, "C11")
	stt.Rule = "semi-sync cluster of 3-4 HA hosts converged by the real daemons; 10-40 actions from {one loop body (manager iteration / health report / recovery check) of a drawn process, full round, client write, slow replica (unreplicated tail on the master), crash of a host (also the master, with an unreplicated tail), restart, operator switch --to/--from, external resetup tool, hand-made writable server without channel (claims to be master), time jump}; bodies run one at a time, so the state at a ZooKeeper change is the state the body saw or made; oracles: after every ZooKeeper change a marked host that is not the recorded master is not in active_nodes; the master key moves away from a host that was down for the whole iteration only if that host is marked; a mark is removed only by the host's own mysync while it is a clean read-only replica (ground truth) without resetup file; no SET read_only=OFF reaches a marked host that is not the recorded master; non-trivial = a mark was set during the case"
	stt.Assumptions = simAssumptions
	stt.Check(t, vs.CheckOpts{Bubble: true}, func(c *vs.Case) {
		n := c.Src.Int("ha_hosts", 3, 4)
		ha := []string{"h1", "h2", "h3", "h4"}[:n]
		o := simOpts{HA: ha, LogLevel: simLogLevel(), Cfg: map[string]string{"failover_cooldown": "0s", "resetup_crashed_hosts": "false", "inactivation_delay": "5s"}}
		dir, _ := os.MkdirTemp("", "verifsim")
		defer os.RemoveAll(dir)
		s := newSim(c, c.RTOrT(t), dir, o)
		defer s.close()
		if !s.converge(40) {
			c.Violation("harness-no-convergence", "calibration: no convergence from a cold start")
		}
		s.traceFrom = s.w.StmtLen()
		hist := s.c11InitHistory()
		var repointed [][2]string // (issuer, target): CHANGE SOURCE reaching a server that has no channel
		s.w.OnStatement = func(w *vs.MyWorld, st *vs.Stmt, h *vs.MyHost) {
			if st.Class == "change_source" && h.Chan == nil {
				repointed = append(repointed, [2]string{st.Issuer, st.Target})
			}
			if st.Class != "set_writable" {
				return
			}
			if _, marked := s.zkGet(pathRecovery + "/" + st.Target); marked && s.masterKey() != st.Target {
				s.report("c11-promoted-marked-host", "%s makes %s writable while it is marked for recovery and the recorded master is %s", st.Issuer, st.Target, s.masterKey())
			}
		}
		markSet := false
		body := func(p *simProc, kind string) {
			repointed = nil
			master0, switch0 := s.masterKey(), s.currentSwitch()
			down := map[string]bool{}
			s.w.Lock()
			for _, hn := range ha {
				if !s.w.Hosts[hn].Up {
					down[hn] = true
				}
			}
			s.w.Unlock()
			mut0 := s.zk.MutLen()
			s.run(p, kind)
			s.c11JudgeClears(mut0, p)
			s.c11Advance(hist, down)
			// outside a switchover, the only thing that gives a channel to a server without one is the
			// repair of a host found claiming to be master beside the recorded one: it must be marked
			if kind == "tick" && switch0 == nil && s.currentSwitch() == nil && s.masterKey() == master0 && len(s.panics) == 0 {
				for _, r := range repointed {
					if _, marked := s.zkGet(pathRecovery + "/" + r[1]); r[0] == p.id && r[1] != master0 && !marked {
						s.dumpTrace(s.traceFrom)
						c.Violation("c11-stale-master-not-marked", "%s found %s claiming to be master beside %s and turned it into a replica, but did not mark it for recovery (active list %v)\n%s", p.id, r[1], master0, s.activeNodes(), s.describe())
					}
				}
			}
			if len(hist.marked) > 0 {
				markSet = true
			}
			s.raise()
		}
		round := func() {
			for _, p := range s.alive() {
				body(p, "health")
			}
			for _, p := range s.alive() {
				body(p, "tick")
				body(p, "recovery")
			}
			s.advance(2 * time.Second)
		}
		steps := c.Src.Int("steps", 10, 40)
		for i := 0; i < steps; i++ {
			act := c.Src.Pick("action", "round", "round", "round", "body", "body", "write", "slow-replicas", "fast-replicas", "crash", "crash-master", "start", "switch", "resetup-tool", "rogue-master", "rogue-after-outage", "advance")
			switch act {
			case "round":
				round()
			case "body":
				ps := s.alive()
				body(ps[c.Src.Int("body.proc", 0, len(ps)-1)], c.Src.Pick("body.kind", "tick", "tick", "recovery", "health"))
			case "write":
				s.w.ClientWrite(s.masterKey(), 200)
			case "slow-replicas":
				s.w.Lock()
				for _, hn := range ha {
					s.w.Hosts[hn].DownloadRate = 1
				}
				s.w.Unlock()
			case "fast-replicas":
				s.w.Lock()
				for _, hn := range ha {
					s.w.Hosts[hn].DownloadRate = 0
				}
				s.w.Unlock()
			case "crash":
				s.crashMySQL(ha[c.Src.Int("crash.host", 0, n-1)])
			case "crash-master":
				// a tail of transactions only the master has: after the failover it is ahead
				m := s.masterKey()
				if c.Src.Bool("crash-master.with_unreplicated_tail") {
					s.w.Lock()
					for _, hn := range ha {
						s.w.Hosts[hn].DownloadRate = 1
					}
					mh := s.w.Hosts[m]
					mh.SSMaster = false // the tail commits locally (async window)
					s.w.Unlock()
					s.w.ClientWrite(m, 200)
					s.w.ClientWrite(m, 200)
				}
				s.crashMySQL(m)
				s.w.Lock()
				for _, hn := range ha {
					s.w.Hosts[hn].DownloadRate = 0
				}
				s.w.Unlock()
			case "start":
				for _, hn := range ha {
					s.w.Lock()
					up := s.w.Hosts[hn].Up
					s.w.Unlock()
					if !up {
						s.startMySQL(hn, true)
					}
				}
			case "switch":
				if c.Src.Bool("switch.to") {
					s.opSwitch("", ha[c.Src.Int("switch.host", 0, n-1)], false, "operator")
				} else {
					s.opSwitch(ha[c.Src.Int("switch.host", 0, n-1)], "", false, "operator")
				}
			case "resetup-tool":
				for _, hn := range ha {
					s.resetupTool(hn)
				}
			case "rogue-master":
				hn := ha[c.Src.Int("rogue.host", 0, n-1)]
				if hn != s.masterKey() {
					s.w.Lock()
					h := s.w.Hosts[hn]
					if h.Up {
						h.Chan, h.RO, h.SRO = nil, false, false
						if c.Src.Bool("rogue.own_txn") {
							h.AddExecuted(vs.Txn{UUID: h.UUID, Gno: h.NextGno, Size: 100, At: time.Now()})
						}
					}
					s.w.Unlock()
				}
			case "rogue-after-outage":
				// a replica is away long enough to drop out of the active list and comes back
				// without replication configuration (and possibly with local writes)
				hn := ha[c.Src.Int("outage.host", 0, n-1)]
				if hn != s.masterKey() {
					s.crashMySQL(hn)
					s.advance(10 * time.Second)
					round()
					round()
					s.startMySQL(hn, false)
					s.w.Lock()
					h := s.w.Hosts[hn]
					h.Chan = nil
					if c.Src.Bool("outage.own_txn") {
						h.AddExecuted(vs.Txn{UUID: h.UUID, Gno: h.NextGno, Size: 100, At: time.Now()})
					}
					s.w.Unlock()
				}
			case "advance":
				s.advance([]time.Duration{5 * time.Second, 30 * time.Second, 61 * time.Second}[c.Src.Int("advance", 0, 2)])
			}
			s.c11Advance(hist, nil)
			s.raise()
		}
		if len(s.panics) > 0 {
			c.Class("panic-in-daemon(C20)")
		}
		if u := s.unknownStatements(); len(u) > 0 {
			c.Violation("harness-unknown-statement", "calibration: fake MySQL did not recognise %v", u)
		}
		if markSet {
			c.Class("mark-set")
			c.NonTrivial()
		}
	})
}
