//go:build verif

package app

import (
	"encoding/json"
	"fmt"
	"os"
	"regexp"
	"runtime"
	"sort"
	"strings"
	"testing"
	"time"

	nodestate "github.com/yandex/mysync/internal/app/node_state"
	"github.com/yandex/mysync/internal/mysql"
	vs "github.com/yandex/mysync/internal/verifsim"
)

var c20Frame = regexp.MustCompile(`github\.com/yandex/mysync/internal/([A-Za-z0-9_/]+)\.((?:\(\*?[A-Za-z0-9_]+\)\.)?[A-Za-z0-9_]+)`)

// c20Site: the innermost mysync function on a panic's stack that is not harness code.
func c20Site(stack string) string {
	lines := strings.Split(stack, "\n")
	// the innermost frame of the daemon's own package names the call site; frames below it
	// (a method called on a nil handle) do not
	var app []string
	for i, l := range lines {
		m := c20Frame.FindStringSubmatch(l)
		if m == nil || m[1] != "app" || strings.HasPrefix(m[2], "(*sim)") || strings.HasPrefix(m[2], "TestVerif") {
			continue
		}
		if i+1 < len(lines) && strings.Contains(lines[i+1], "zz_verif_") {
			continue
		}
		app = append(app, strings.TrimPrefix(m[2], "(*App)."))
		if len(app) == 2 {
			break
		}
	}
	if len(app) > 0 {
		return "app." + strings.Join(app, "<-")
	}
	for i, l := range lines {
		m := c20Frame.FindStringSubmatch(l)
		if m == nil || strings.HasPrefix(m[1], "verifsim") {
			continue
		}
		if i+1 < len(lines) && strings.Contains(lines[i+1], "zz_verif_") {
			continue
		}
		if strings.HasPrefix(m[2], "(*sim)") || strings.HasPrefix(m[2], "TestVerif") {
			continue
		}
		return m[1] + "." + m[2]
	}
	return "unknown"
}

func (s *sim) c20RaisePanics() {
	s.mu.Lock()
	ps := append([]simPanic(nil), s.panics...)
	s.mu.Unlock()
	for _, p := range ps {
		site := c20Site(p.Stack)
		if os.Getenv("VERIF_C20_COLLECT") != "" { // development: survey the sites instead of stopping at the first
			s.c.Class("panic@" + site + " <- " + p.Step)
			s.mu.Lock()
			s.panics = nil
			s.mu.Unlock()
			continue
		}
		s.c.Violation("c20-panic@"+site, "%s: loop body %q of process %s panicked (the daemon would terminate): %s\n%s", site, p.Step, p.Proc, p.Value, firstLines(p.Stack, 24))
	}
}

func firstLines(s string, n int) string {
	l := strings.Split(s, "\n")
	if len(l) > n {
		l = l[:n]
	}
	return strings.Join(l, "\n")
}

// TestVerifC20Inputs: no loop body panics, whatever the coordination tree and the servers hold.
func TestVerifC20Inputs(t *testing.T) {
	stt := vs.NewStats(t, "C20")
	stt.Rule = "cluster of 2-3 HA hosts (+0-1 cascade) converged by the real daemons, then 6-30 actions from {loop body (manager iteration / health / recovery check / lag check) of a drawn process, full round} interleaved with coordination-tree edits reachable through the CLI or external tools {unregister an HA host (also the recorded master, also a dead one), register it again, register a host that does not exist, stream_from pointing at an unregistered host / at itself / cascade entry removed, health record deleted or made stale, active_nodes with an unregistered name / empty / removed, recovery mark or optimisation-registry entry for an unregistered host, master key set to an unregistered host / to the cascade replica / removed, switch request naming an unregistered host, maintenance on/off, a replica lagging by hours with resetup_host_lag 30s; any of the registration/health/master/active-list edits also landing between two coordination requests of a running loop body} and faults {failing / hanging / cut statement at a drawn position, mysqld crash/start, ZooKeeper down/up, time jump}; oracle: no panic in any loop body (the harness recovers it; the daemon would die); non-trivial = at least one dangling reference or fault was injected"
	stt.Assumptions = simAssumptions
	stt.Check(t, vs.CheckOpts{Bubble: true}, func(c *vs.Case) {
		n := c.Src.Int("ha_hosts", 2, 3)
		ha := []string{"h1", "h2", "h3"}[:n]
		o := simOpts{HA: ha, LogLevel: simLogLevel(), Cfg: map[string]string{"failover_cooldown": "0s", "manager_switchover": fmt.Sprint(c.Src.Bool("manager_switchover")), "resetup_host_lag": "30s"}}
		if c.Src.Bool("cascade") {
			o.Cascade = map[string]string{"c1": ha[n-1]}
		}
		dir, _ := os.MkdirTemp("", "verifsim")
		defer os.RemoveAll(dir)
		s := newSim(c, c.RTOrT(t), dir, o)
		defer s.close()
		if !s.converge(40) {
			c.Violation("harness-no-convergence", "calibration: no convergence from a cold start")
		}
		s.c20RaisePanics()
		s.traceFrom = s.w.StmtLen()
		names := s.hostNames()
		raw := func(key string, v any) {
			b, _ := json.Marshal(v)
			s.zk.RawSet(simNS+"/"+key, b)
		}
		pickHost := func(label string) string { return names[c.Src.Int(label, 0, len(names)-1)] }
		hostile := false
		steps := c.Src.Int("steps", 6, 30)
		for i := 0; i < steps; i++ {
			act := c.Src.Pick("action", "body", "body", "body", "round", "round", "unregister", "register-again", "register-ghost", "stream-from", "health-record", "active-nodes", "recovery-ghost", "optimization-ghost", "master-key", "switch-ghost", "maintenance", "fault", "crash", "start", "zk-down", "zk-up", "advance", "edit-during-a-body", "replica-lags")
			switch act {
			case "body":
				ps := s.alive()
				p := ps[c.Src.Int("body.proc", 0, len(ps)-1)]
				kind := c.Src.Pick("body.kind", "tick", "tick", "health", "recovery", "lagcheck")
				c.Flight() // a panic in a goroutine the daemon spawned kills the process: the script so far is the replay
				s.run(p, kind)
			case "round":
				c.Flight()
				s.round(true)
			case "unregister":
				h := pickHost("unregister.host")
				if _, casc := o.Cascade[h]; casc {
					s.zk.RawDelete(simNS + "/" + pathCascadeNodesPrefix + "/" + h)
				} else {
					s.zk.RawDelete(simNS + "/" + pathHANodes + "/" + h)
				}
				hostile = true
			case "register-again":
				for _, h := range ha {
					if _, ok := s.zkGet(pathHANodes + "/" + h); !ok {
						raw(pathHANodes+"/"+h, mysql.NodeConfiguration{})
					}
				}
			case "register-ghost":
				if c.Src.Bool("ghost.cascade") {
					raw(pathCascadeNodesPrefix+"/ghost", mysql.CascadeNodeConfiguration{StreamFrom: pickHost("ghost.stream_from")})
				} else {
					raw(pathHANodes+"/ghost", mysql.NodeConfiguration{})
				}
				hostile = true
			case "stream-from":
				if len(o.Cascade) > 0 {
					switch c.Src.Pick("stream-from.kind", "unregistered", "self", "removed", "back") {
					case "unregistered":
						raw(pathCascadeNodesPrefix+"/c1", mysql.CascadeNodeConfiguration{StreamFrom: "nowhere"})
					case "self":
						raw(pathCascadeNodesPrefix+"/c1", mysql.CascadeNodeConfiguration{StreamFrom: "c1"})
					case "removed":
						s.zk.RawDelete(simNS + "/" + pathCascadeNodesPrefix + "/c1")
					case "back":
						raw(pathCascadeNodesPrefix+"/c1", mysql.CascadeNodeConfiguration{StreamFrom: ha[n-1]})
					}
					hostile = true
				}
			case "health-record":
				h := pickHost("health.host")
				if c.Src.Bool("health.delete") {
					s.zk.RawDelete(simNS + "/" + pathHealthPrefix + "/" + h)
				} else {
					raw(pathHealthPrefix+"/"+h, &nodestate.NodeState{CheckAt: time.Now().Add(-24 * time.Hour), CheckBy: "ghost", PingOk: c.Src.Bool("health.stale_ping")})
				}
				hostile = true
			case "active-nodes":
				switch c.Src.Pick("active.kind", "ghost", "empty", "removed", "all") {
				case "ghost":
					raw(pathActiveNodes, append(s.activeNodes(), "nowhere"))
				case "empty":
					raw(pathActiveNodes, []string{})
				case "removed":
					s.zk.RawDelete(simNS + "/" + pathActiveNodes)
				case "all":
					raw(pathActiveNodes, names)
				}
				hostile = true
			case "recovery-ghost":
				s.zk.RawSet(simNS+"/"+pathRecovery+"/nowhere", []byte("null"))
				hostile = true
			case "optimization-ghost":
				// an optimisation registry entry for a host that is not (or no longer) registered
				h := []string{"nowhere", pickHost("optimization.host")}[c.Src.Int("optimization.ghost", 0, 1)]
				s.zk.RawSet(simNS+"/optimization_nodes", []byte("null"))
				s.zk.RawSet(simNS+"/optimization_nodes/"+h, []byte(`{"status":"`+c.Src.Pick("optimization.status", "", "enabled")+`"}`))
				hostile = true
			case "master-key":
				switch c.Src.Pick("master.kind", "unregistered", "cascade", "removed", "other") {
				case "unregistered":
					raw(pathMasterNode, "nowhere")
				case "cascade":
					if len(o.Cascade) > 0 {
						raw(pathMasterNode, "c1")
					}
				case "removed":
					s.zk.RawDelete(simNS + "/" + pathMasterNode)
				case "other":
					raw(pathMasterNode, pickHost("master.other"))
				}
				hostile = true
			case "switch-ghost":
				if c.Src.Bool("switch.to") {
					s.opSwitch("", []string{"nowhere", pickHost("switch.host")}[c.Src.Int("switch.ghost", 0, 1)], c.Src.Bool("switch.failover"), "operator")
				} else {
					s.opSwitch([]string{"nowhere", pickHost("switch.host")}[c.Src.Int("switch.ghost", 0, 1)], "", c.Src.Bool("switch.failover"), "operator")
				}
				hostile = true
			case "replica-lags":
				// an old transaction received and not applied: Seconds_Behind is hours (the lag check of
				// that host then looks at the recorded master)
				h := pickHost("lag.host")
				s.w.Lock()
				if hh := s.w.Hosts[h]; hh.Up && hh.Chan != nil {
					hh.ApplyDelay = 1000 * time.Hour
					if mh := s.w.Hosts[hh.Chan.Source]; mh != nil {
						tx := vs.Txn{UUID: mh.UUID, Gno: mh.NextGno, Size: 100, At: time.Now().Add(-2 * time.Hour)}
						mh.AddExecuted(tx)
						hh.AddRelay(tx, time.Now())
					}
				}
				s.w.Unlock()
				hostile = true
			case "edit-during-a-body":
				// "hosts added or removed at any moment": the edit lands between two coordination
				// requests of whatever loop body runs next (one-shot)
				at, n := c.Src.Int("edit.at_request", 1, 40), 0
				kind := c.Src.Pick("edit.kind", "unregister", "register-again", "delete-health", "remove-master-key", "remove-active-nodes", "unregister-cascade")
				h := pickHost("edit.host")
				s.zk.Intercept = func(r *vs.ZKReq) vs.ZKAction {
					if r.Client == "raw" || n < 0 {
						return vs.ZKProceed
					}
					n++
					if n != at {
						return vs.ZKProceed
					}
					n = -1
					switch kind {
					case "unregister":
						s.zk.RawDelete(simNS + "/" + pathHANodes + "/" + h)
					case "register-again":
						for _, x := range ha {
							if _, ok := s.zkGet(pathHANodes + "/" + x); !ok {
								raw(pathHANodes+"/"+x, mysql.NodeConfiguration{})
							}
						}
					case "delete-health":
						s.zk.RawDelete(simNS + "/" + pathHealthPrefix + "/" + h)
					case "remove-master-key":
						s.zk.RawDelete(simNS + "/" + pathMasterNode)
					case "remove-active-nodes":
						s.zk.RawDelete(simNS + "/" + pathActiveNodes)
					case "unregister-cascade":
						s.zk.RawDelete(simNS + "/" + pathCascadeNodesPrefix + "/c1")
					}
					return vs.ZKProceed
				}
				hostile = true
			case "maintenance":
				if s.currentMaint() == nil {
					s.opMaintenance("")
				} else {
					s.opLeaveMaintenance()
				}
			case "fault":
				s.w.AddFault(&vs.Fault{Target: []string{"", pickHost("fault.host")}[c.Src.Int("fault.anyhost", 0, 1)], Nth: c.Src.Int("fault.nth", 1, 30), Kind: c.Src.Pick("fault.kind", "err", "err", "hang", "cut-before", "cut-after"), Code: 1205})
				hostile = true
			case "crash":
				s.crashMySQL(pickHost("crash.host"))
				hostile = true
			case "start":
				for _, h := range names {
					s.w.Lock()
					up := s.w.Hosts[h].Up
					s.w.Unlock()
					if !up {
						s.startMySQL(h, c.Src.Bool("start.after_crash"))
					}
				}
			case "zk-down":
				s.zk.SetDown(true)
				hostile = true
			case "zk-up":
				s.zk.SetDown(false)
			case "advance":
				s.advance([]time.Duration{5 * time.Second, 35 * time.Second, 70 * time.Second}[c.Src.Int("advance", 0, 2)])
			}
			s.c20RaisePanics()
		}
		s.zk.SetDown(false)
		if u := s.unknownStatements(); len(u) > 0 {
			c.Violation("harness-unknown-statement", "calibration: fake MySQL did not recognise %v", u)
		}
		if hostile {
			c.NonTrivial()
		}
	})
}

// goroutineSites: histogram of "created by" sites of all goroutines of the process.
func goroutineSites() map[string]int {
	buf := make([]byte, 64<<20)
	buf = buf[:runtime.Stack(buf, true)]
	h := map[string]int{}
	for _, g := range strings.Split(string(buf), "\n\n") {
		site := "main/unknown"
		for _, l := range strings.Split(g, "\n") {
			if strings.HasPrefix(l, "created by ") {
				site = strings.TrimPrefix(l, "created by ")
				if i := strings.Index(site, " in goroutine"); i > 0 {
					site = site[:i]
				}
			}
		}
		h[site]++
	}
	return h
}

func growth(a, b map[string]int) string {
	var out []string
	for k, v := range b {
		if v-a[k] > 0 {
			out = append(out, fmt.Sprintf("%s +%d", k, v-a[k]))
		}
	}
	sort.Strings(out)
	return strings.Join(out, "; ")
}

// TestVerifC20Leak: repeated iterations in a fixed situation do not accumulate goroutines or
// open connections.
func TestVerifC20Leak(t *testing.T) {
	stt := vs.NewStats(t, "C20")
	stt.Rule = "3 HA hosts converged by the real daemons, then one situation drawn from {healthy, replica down, master down without failover, ZooKeeper down (lost state), full maintenance, one host unregistered, manager_switchover with the master's mysync cut from ZooKeeper, manager_switchover with the master answering every statement with a 'dubious' error} is held for 60 rounds of every loop body of every process; the number of open connections at the fake servers and the process's goroutine count are sampled after rounds 20, 40 and 60; oracle: no growth by 4 or more connections (6 goroutines) in BOTH intervals (a pool filling up shows in the first interval only); non-trivial = the situation is not 'healthy'"
	stt.Assumptions = simAssumptions
	stt.Check(t, vs.CheckOpts{Bubble: true}, func(c *vs.Case) {
		ha := []string{"h1", "h2", "h3"}
		sit := c.Src.Pick("situation", "healthy", "replica-down", "master-down", "zk-down", "maintenance", "host-unregistered", "manager-switchover-master-cut", "manager-switchover-master-answers-dubious-errors")
		o := simOpts{HA: ha, LogLevel: simLogLevel(), Cfg: map[string]string{"failover": "false"}}
		if sit == "manager-switchover-master-cut" || sit == "manager-switchover-master-answers-dubious-errors" || c.Src.Bool("manager_switchover") {
			o.Cfg["manager_switchover"] = "true"
		}
		dir, _ := os.MkdirTemp("", "verifsim")
		defer os.RemoveAll(dir)
		s := newSim(c, c.RTOrT(t), dir, o)
		defer s.close()
		if !s.converge(40) {
			c.Violation("harness-no-convergence", "calibration: no convergence from a cold start")
		}
		c.Class("situation:" + sit)
		switch sit {
		case "replica-down":
			s.crashMySQL("h3")
		case "master-down":
			s.crashMySQL(s.masterKey())
		case "zk-down":
			s.zk.SetDown(true)
		case "maintenance":
			s.opMaintenance("")
		case "host-unregistered":
			s.zk.RawDelete(simNS + "/" + pathHANodes + "/h3")
		case "manager-switchover-master-answers-dubious-errors":
			// every statement sent to the master is answered with an error the daemon classifies as
			// "dubious" (too many connections and the like): the extra probe of the master runs each tick
			// (only to the manager, which must not be the master's own mysync: that one keeps reporting
			// the master healthy). Management is first moved to another host.
			if p := s.procs[s.masterKey()]; p != nil {
				l := s.zk.Link(p.id)
				l.Set(func(l *vs.ZKLink) { l.Refuse = true })
				l.Sever()
				for i := 0; i < 12; i++ {
					s.round(true)
					if m := s.manager(); m != nil && m.host != s.masterKey() {
						break
					}
				}
				l.Set(func(l *vs.ZKLink) { l.Refuse = false })
				s.round(true)
				s.round(true)
			}
			issuer := "nobody"
			if m := s.manager(); m != nil && m.host != s.masterKey() {
				issuer = m.id
			} else {
				c.Class("management-did-not-move")
			}
			s.w.AddFault(&vs.Fault{Issuer: issuer, Target: s.masterKey(), Nth: 1, Kind: "err", Code: uint16([]int{1040, 1203, 1045}[c.Src.Int("dubious_code", 0, 2)]), Sticky: true})
		case "manager-switchover-master-cut":
			if p := s.procs[s.masterKey()]; p != nil {
				l := s.zk.Link(p.id)
				l.Set(func(l *vs.ZKLink) { l.Refuse = true })
				l.Sever()
			}
		}
		var conns, gor [3]int
		var sites [3]map[string]int
		for phase := 0; phase < 3; phase++ {
			for r := 0; r < 20; r++ {
				for _, p := range s.alive() {
					s.run(p, "health")
				}
				for _, p := range s.alive() {
					s.run(p, "tick")
					s.run(p, "recovery")
					s.run(p, "lagcheck")
				}
				s.advance(2 * time.Second)
			}
			conns[phase], gor[phase] = s.w.OpenConns(), runtime.NumGoroutine()
			sites[phase] = goroutineSites()
		}
		c.Sample(map[string]any{"situation": sit, "open_connections": conns, "goroutines": gor})
		if sit != "healthy" {
			c.NonTrivial()
		}
		if len(s.panics) > 0 {
			c.Class("panic-in-daemon")
			return
		}
		if conns[1]-conns[0] >= 4 && conns[2]-conns[1] >= 4 {
			c.Violation("c20-connection-leak@"+sit, "situation %q: open connections at the fake servers after 20/40/60 rounds: %v (goroutines %v)", sit, conns, gor)
		}
		if gor[1]-gor[0] >= 6 && gor[2]-gor[1] >= 6 {
			c.Violation("c20-goroutine-leak@"+sit, "situation %q: goroutines after 20/40/60 rounds: %v (open connections %v); created between the last two samples: %s", sit, gor, conns, growth(sites[1], sites[2]))
		}
	})
}
