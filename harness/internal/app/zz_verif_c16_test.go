//go:build verif

package app

import (
	"encoding/json"
	"fmt"
	"os"
	"sort"
	"testing"
	"time"

	"github.com/rs/zerolog"

	nodestate "github.com/yandex/mysync/internal/app/node_state"
	"github.com/yandex/mysync/internal/config"
	"github.com/yandex/mysync/internal/mysql"
	vs "github.com/yandex/mysync/internal/verifsim"
)

// TestVerifC16Resolve: source resolution of a cascade replica (pure function over generated maps).
func TestVerifC16Resolve(t *testing.T) {
	stt := vs.NewStats(t, "C16")
	stt.Rule = "findBestStreamFrom on generated stream_from maps over 1-5 cascade hosts + 2 HA hosts (chains, cycles incl. through the replica itself, self-references, references to HA nodes and to the master; every referenced host registered), each host healthy / dead / offline / lagging beyond stream_from_reasonable_lag / replication stopped / lag unknown, the replica currently streaming from its configured source, or from any other host (an ancestor further up the chain included); reference resolver written from the statement; also: result is never the replica itself, is a registered host, and the call returns (watchdog); non-trivial = the configured source was not simply returned (an ancestor, the master or a cycle decided)"
	lg := zerolog.Nop()
	stt.Check(t, vs.CheckOpts{}, func(c *vs.Case) {
		cfg, _ := config.DefaultConfig()
		cfg.StreamFromReasonableLag = 5 * time.Minute
		a := &App{logger: &lg, config: &cfg}
		nc := c.Src.Int("cascade_hosts", 1, 5)
		master := "m"
		all := []string{master, "ha1"}
		var casc []string
		for i := 0; i < nc; i++ {
			casc = append(casc, fmt.Sprintf("c%d", i))
		}
		all = append(all, casc...)
		topo := map[string]mysql.CascadeNodeConfiguration{}
		for _, h := range casc {
			topo[h] = mysql.CascadeNodeConfiguration{StreamFrom: all[c.Src.Int("stream_from."+h, 0, len(all)-1)]}
		}
		healthy := map[string]bool{}
		cs := map[string]*nodestate.NodeState{master: {PingOk: true, IsMaster: true}}
		for _, h := range all[1:] {
			lag := 10.0
			ns := &nodestate.NodeState{PingOk: true, SlaveState: &nodestate.SlaveState{MasterHost: master, ReplicationState: mysql.ReplicationRunning, ReplicationLag: &lag}}
			switch c.Src.Pick("health."+h, "ok", "ok", "dead", "offline", "lagging", "stopped", "lag-unknown") {
			case "ok":
				healthy[h] = true
			case "dead":
				ns.PingOk, ns.SlaveState = false, nil
			case "offline":
				ns.IsOffline = true
			case "lagging":
				big := 301.0
				ns.SlaveState.ReplicationLag = &big
			case "stopped":
				ns.SlaveState.ReplicationState = mysql.ReplicationStopped
			case "lag-unknown":
				ns.SlaveState.ReplicationLag = nil
			}
			cs[h] = ns
		}
		healthy[master] = true
		r := casc[c.Src.Int("replica", 0, nc-1)]
		if c.Src.Bool("already_streaming_from_configured") && cs[r].SlaveState != nil {
			cs[r].SlaveState.MasterHost = topo[r].StreamFrom
			cs[r].SlaveState.ReplicationState = mysql.ReplicationRunning
		} else if cs[r].SlaveState != nil {
			// ... or from any other host (e.g. an ancestor further up, where an earlier repair put it);
			// only the CONFIGURED source enjoys the "keep what already works" rule
			cs[r].SlaveState.MasterHost = all[c.Src.Int("currently_streaming_from", 0, len(all)-1)]
		}
		// reference resolver
		want, why := "", ""
		visited := map[string]bool{r: true}
		cur := r
		for want == "" {
			sf := topo[cur].StreamFrom
			switch {
			case sf == "":
				want, why = master, "chain-ends-at-HA-node"
			case visited[sf]:
				want, why = master, "cycle"
			case cur == r && cs[r].SlaveState != nil && cs[r].SlaveState.ReplicationState == mysql.ReplicationRunning && cs[r].SlaveState.MasterHost == sf:
				want, why = sf, "already-streaming"
			case healthy[sf]:
				want, why = sf, "healthy"
				if cur != r {
					why = "healthy-ancestor"
				}
			default:
				visited[sf] = true
				cur = sf
			}
		}
		c.Class("decided-by:" + why)
		if why != "healthy" && why != "already-streaming" {
			c.NonTrivial()
		}
		node, _ := mysql.NewNode(&cfg, &lg, r)
		done := make(chan string, 1)
		c.Flight()
		go func() { done <- a.findBestStreamFrom(node, cs, master, topo) }()
		var got string
		select {
		case got = <-done:
		case <-time.After(10 * time.Second):
			c.Violation("c16-no-termination", "findBestStreamFrom(%s) did not return within 10 s; stream_from map %v", r, topo)
		}
		c.Sample(map[string]any{"replica": r, "stream_from": fmt.Sprint(topo), "healthy": fmt.Sprint(healthy), "result": got, "reference": want, "why": why})
		if got == r {
			c.Violation("c16-resolves-to-itself", "source of %s resolved to itself; stream_from map %v", r, topo)
		}
		if got != want {
			c.Violation("c16-wrong-source", "source of %s resolved to %q, the statement gives %q (%s); stream_from map %v, healthy %v, replica state %+v", r, got, want, why, topo, healthy, cs[r].SlaveState)
		}
	})
}

// TestVerifC16Sim: a cascade replica is moved to another source only once the new source's
// transactions contain its own; cascade replicas are never listed as active.
func TestVerifC16Sim(t *testing.T) {
	stt := vs.NewStats(t, "C16")
	stt.Rule = "cluster simulation: 2-3 HA hosts + 1-2 cascade replicas (streaming from an HA replica, from the master or from each other), converged from a cold start; 8-30 actions from {round, client write, crash/start of a source, apply delay on a source (it lags behind the cascade replica), operator rewrites stream_from (also to a cycle), operator converts an HA replica into a cascade replica, master crash (automatic failover on/off), time advance}; oracle at every 'CHANGE ... SOURCE' reaching a cascade replica that had a channel: ground-truth executed set of the new source contains the replica's at that instant; after every round no cascade host is in active_nodes; no SET read_only=OFF reaches a host registered as cascade replica (unless it is the recorded master); non-trivial = at least one re-pointing of a cascade replica was judged"
	stt.Assumptions = simAssumptions
	stt.Check(t, vs.CheckOpts{Bubble: true}, func(c *vs.Case) {
		n := c.Src.Int("ha_hosts", 2, 3)
		ha := []string{"h1", "h2", "h3"}[:n]
		o := simOpts{HA: ha, LogLevel: simLogLevel(), Cfg: map[string]string{"failover": fmt.Sprint(c.Src.Bool("failover")), "failover_cooldown": "0s", "failover_delay": "0s", "inactivation_delay": "5s", "stream_from_reasonable_lag": "30s"}}
		o.Cascade = map[string]string{"c1": ha[c.Src.Int("c1_source", 0, n-1)]}
		if c.Src.Bool("two_cascades") {
			o.Cascade["c2"] = []string{"c1", ha[n-1]}[c.Src.Int("c2_source", 0, 1)]
		}
		dir, _ := os.MkdirTemp("", "verifsim")
		defer os.RemoveAll(dir)
		s := newSim(c, c.RTOrT(t), dir, o)
		defer s.close()
		if !s.converge(40) {
			c.Violation("harness-no-convergence", "calibration: no convergence from a cold start")
		}
		s.traceFrom = s.w.StmtLen()
		judged, ahead := 0, false
		converted := map[string]bool{} // HA hosts turned into cascade replicas by the operator during the case
		s.w.OnStatement = func(w *vs.MyWorld, st *vs.Stmt, h *vs.MyHost) {
			if st.Class == "set_writable" {
				if _, isCasc := s.zkGet(pathCascadeNodesPrefix + "/" + st.Target); isCasc && s.masterKey() != st.Target {
					s.report("c16-cascade-promoted", "%s makes %s writable although it is registered as a cascade replica (recorded master %s, active list %v)", st.Issuer, st.Target, s.masterKey(), s.activeNodes())
				}
			}
			if st.Class != "change_source" {
				return
			}
			if _, casc := s.opts.Cascade[st.Target]; !casc || h.Chan == nil {
				return
			}
			judged++
			src := w.Hosts[st.Arg]
			if src == nil {
				return
			}
			if !vs.GSubset(h.Executed, src.Executed) {
				s.report("c16-moved-to-source-that-is-behind", "cascade replica %s (executed %s) is re-pointed from %s to %s whose executed set %s does not contain it", st.Target, vs.GText(h.Executed), h.Chan.Source, st.Arg, vs.GText(src.Executed))
			}
		}
		allHosts := s.hostNames()
		steps := c.Src.Int("steps", 8, 30)
		for i := 0; i < steps; i++ {
			switch c.Src.Pick("action", "round", "round", "round", "write", "crash-source", "start-hosts", "slow-source", "fast-sources", "rewrite-stream-from", "advance", "convert-ha-replica-to-cascade", "crash-master", "convert-then-master-dies") {
			case "convert-then-master-dies":
				// the published list still names the host as an HA member when the failover starts
				h := ha[c.Src.Int("convert.host", 0, n-1)]
				if h != s.masterKey() && !converted[h] && len(converted) < n-2 {
					b, _ := json.Marshal(mysql.CascadeNodeConfiguration{StreamFrom: s.masterKey()})
					s.zk.RawSet(simNS+"/"+pathCascadeNodesPrefix+"/"+h, b)
					s.zk.RawDelete(simNS + "/" + pathHANodes + "/" + h)
					converted[h] = true
					c.Class("ha-replica-converted-to-cascade")
					s.crashMySQL(s.masterKey())
				}
			case "convert-ha-replica-to-cascade":
				// what "mysync host add <h> --stream-from <src>" does to a registered HA replica
				h := ha[c.Src.Int("convert.host", 0, n-1)]
				if h != s.masterKey() && !converted[h] && len(converted) < n-2 {
					b, _ := json.Marshal(mysql.CascadeNodeConfiguration{StreamFrom: s.masterKey()})
					s.zk.RawSet(simNS+"/"+pathCascadeNodesPrefix+"/"+h, b)
					s.zk.RawDelete(simNS + "/" + pathHANodes + "/" + h)
					converted[h] = true
					c.Class("ha-replica-converted-to-cascade")
				}
			case "crash-master":
				s.crashMySQL(s.masterKey())
			case "round":
				s.w.Lock()
				for cn := range s.opts.Cascade {
					var cfg mysql.CascadeNodeConfiguration
					s.zkJSON(pathCascadeNodesPrefix+"/"+cn, &cfg)
					ch, want := s.w.Hosts[cn], s.w.Hosts[cfg.StreamFrom]
					if ch.Chan != nil && want != nil && ch.Chan.Source != cfg.StreamFrom && !vs.GSubset(ch.Executed, want.Executed) {
						ahead = true
					}
				}
				s.w.Unlock()
				s.round(true)
				for _, a := range s.activeNodes() {
					_, conv := s.zkGet(pathCascadeNodesPrefix + "/" + a)
					if _, casc := s.opts.Cascade[a]; casc || (conv && false) {
						c.Violation("c16-cascade-in-active-list", "cascade replica %s is in the published active list %v", a, s.activeNodes())
					}
				}
			case "write":
				s.w.ClientWrite(s.masterKey(), 200)
			case "crash-source":
				h := allHosts[c.Src.Int("victim", 0, len(allHosts)-1)]
				if h != s.masterKey() {
					s.crashMySQL(h)
				}
			case "start-hosts":
				for _, h := range allHosts {
					s.w.Lock()
					up := s.w.Hosts[h].Up
					s.w.Unlock()
					if !up {
						s.startMySQL(h, false)
					}
				}
			case "slow-source":
				h := allHosts[c.Src.Int("slow", 0, len(allHosts)-1)]
				s.w.Lock()
				s.w.Hosts[h].ApplyDelay = []time.Duration{8 * time.Second, 60 * time.Second}[c.Src.Int("slow.delay", 0, 1)]
				s.w.Unlock()
				s.w.ClientWrite(s.masterKey(), 200)
			case "fast-sources":
				s.w.Lock()
				for _, h := range allHosts {
					s.w.Hosts[h].ApplyDelay = 0
				}
				s.w.Unlock()
			case "rewrite-stream-from":
				cn := "c1"
				if _, ok := s.opts.Cascade["c2"]; ok && c.Src.Bool("rewrite_c2") {
					cn = "c2"
				}
				to := allHosts[c.Src.Int("new_source", 0, len(allHosts)-1)]
				if to != cn {
					b, _ := json.Marshal(mysql.CascadeNodeConfiguration{StreamFrom: to})
					s.zk.RawSet(simNS+"/"+pathCascadeNodesPrefix+"/"+cn, b)
				}
			case "advance":
				s.advance([]time.Duration{2 * time.Second, 10 * time.Second, 40 * time.Second}[c.Src.Int("advance", 0, 2)])
			}
			s.raise()
		}
		if u := s.unknownStatements(); len(u) > 0 {
			c.Violation("harness-unknown-statement", "calibration: fake MySQL did not recognise %v", u)
		}
		if len(s.panics) > 0 {
			c.Class("panic-in-daemon(C20)")
		}
		if ahead {
			c.Class("replica-ahead-of-its-configured-source-at-a-round")
		}
		if judged > 0 {
			c.Class("cascade-re-pointed")
			c.NonTrivial()
		}
	})
}

// TestVerifC16Move: the guarded move, over generated transaction-set relations between the
// cascade replica, its current source and the candidate (real repairSlaveNode on a state
// collected by the real getClusterStateFromDB).
func TestVerifC16Move(t *testing.T) {
	stt := vs.NewStats(t, "C16")
	stt.Rule = "master m, HA replica h2, cascade replica c1 (and c2 as a possible ancestor): executed sets drawn independently per host as prefixes of the master's history plus optional transactions of h2's own, c1's own or a foreign server id (relations behind / equal / ahead / diverged between c1 and each candidate); c1 currently streaming from m, h2 or c2 with IO/SQL threads running or stopped, configured stream_from in {m,h2,c2}, candidate up/down/lagging/offline; 1-3 repair passes with the candidate optionally catching up in between; replication frozen so the relation is what the generator drew; oracle at every 'CHANGE ... SOURCE' reaching c1 while it has a channel: the new source's ground-truth executed set contains c1's; non-trivial = c1 was not simply behind-or-equal to every host, or a move was judged"
	stt.Assumptions = simAssumptions
	stt.Check(t, vs.CheckOpts{Bubble: true}, func(c *vs.Case) {
		master := "m"
		hosts := []string{"m", "h2", "c1", "c2"}
		o := simOpts{HA: []string{"m", "h2"}, LogLevel: simLogLevel(), Cfg: map[string]string{"semi_sync": "false", "stream_from_reasonable_lag": "30s"}}
		conf := []string{"m", "h2", "c2"}[c.Src.Int("c1.stream_from", 0, 2)]
		o.Cascade = map[string]string{"c1": conf, "c2": []string{"m", "h2", "c1"}[c.Src.Int("c2.stream_from", 0, 2)]}
		dir, _ := os.MkdirTemp("", "verifsim")
		defer os.RemoveAll(dir)
		s := newSim(c, c.RTOrT(t), dir, o)
		defer s.close()
		s.makeWarm(master, []string{"h2", "m"}, false, 0)
		p := s.procs[master]
		s.runFunc(p, "learn-hosts", func() {
			p.app.dcs.WaitConnected(5 * time.Second)
			p.app.dcs.Initialize()
			p.app.initializeOptimizationModule()
			_ = p.app.cluster.UpdateHostsInfo()
		})
		// draws
		type hd struct {
			prefix, ownH2, ownC1, foreign int
			up, offline                   bool
		}
		d := map[string]*hd{}
		for _, h := range hosts {
			x := &hd{prefix: c.Src.Int(h+".prefix", 6, 10), up: true}
			if h == master {
				x.prefix = 10
			} else {
				x.ownH2 = c.Src.Int(h+".txns_of_h2", 0, 2) * c.Src.Int(h+".has_txns_of_h2", 0, 1)
				x.foreign = c.Src.Int(h+".foreign_txns", 0, 4) / 4
				x.up = c.Src.Int(h+".down", 0, 5) != 0
				x.offline = c.Src.Int(h+".offline", 0, 7) == 0
			}
			if h == "c1" {
				x.ownC1 = c.Src.Int("c1.own_txns", 0, 4) / 4
				x.up = true
			}
			d[h] = x
		}
		cur := []string{"m", "h2", "c2"}[c.Src.Int("c1.current_source", 0, 2)]
		io, sql := c.Src.Int("c1.io_running", 0, 3) != 0, c.Src.Int("c1.sql_running", 0, 3) != 0
		now := time.Now()
		arrange := func() {
			s.w.Lock()
			for _, h := range hosts {
				hh, x := s.w.Hosts[h], d[h]
				hh.ApplyDelay = 1000 * time.Hour
				hh.ResetData()
				add := func(u string, n int) {
					for g := 1; g <= n; g++ {
						hh.AddExecuted(vs.Txn{UUID: u, Gno: int64(g), Size: 100, At: now.Add(-time.Hour)})
					}
				}
				add(uuidFor(0), x.prefix)
				add(s.w.Hosts["h2"].UUID, x.ownH2)
				add(s.w.Hosts["c1"].UUID, x.ownC1)
				add("99999999-0000-0000-0000-000000000099", x.foreign)
				hh.Offline = x.offline
			}
			s.w.Hosts["c1"].Chan = vs.NewChannel(cur, true)
			s.w.Hosts["c1"].Chan.IODesired, s.w.Hosts["c1"].Chan.SQLDesired = io, sql
			s.w.Unlock()
			for _, h := range hosts {
				s.w.Lock()
				up := s.w.Hosts[h].Up
				s.w.Unlock()
				if up && !d[h].up {
					s.crashMySQL(h)
				} else if !up && d[h].up {
					s.startMySQL(h, false)
				}
			}
		}
		arrange()
		s.w.Lock()
		e := func(h string) vs.RefSet { return s.w.Hosts[h].Executed }
		rel := func(a, b string) string {
			ab, ba := vs.GSubset(e(a), e(b)), vs.GSubset(e(b), e(a))
			switch {
			case ab && ba:
				return "equal"
			case ab:
				return "behind"
			case ba:
				return "ahead"
			}
			return "diverged"
		}
		relConf := rel("c1", conf)
		hard := false
		for _, h := range []string{"m", "h2", "c2"} {
			if r := rel("c1", h); r == "ahead" || r == "diverged" {
				hard = true
			}
		}
		s.w.Unlock()
		c.Class("c1-vs-configured-source:" + relConf)
		s.traceFrom = s.w.StmtLen()
		judged := 0
		s.w.OnStatement = func(w *vs.MyWorld, st *vs.Stmt, h *vs.MyHost) {
			if st.Class != "change_source" || st.Target != "c1" || h.Chan == nil {
				return
			}
			judged++
			src := w.Hosts[st.Arg]
			if st.Arg == "c1" || src == nil {
				s.report("c16-pointed-at-itself-or-unknown", "cascade replica c1 is pointed at %q", st.Arg)
				return
			}
			if !vs.GSubset(h.Executed, src.Executed) {
				s.report("c16-moved-to-source-that-is-behind", "cascade replica c1 (executed %s) is re-pointed from %s to %s whose executed set %s does not contain it (configured stream_from %s)", vs.GText(h.Executed), h.Chan.Source, st.Arg, vs.GText(src.Executed), conf)
			}
		}
		passes := c.Src.Int("passes", 1, 3)
		for pass := 0; pass < passes; pass++ {
			if pass > 0 {
				if c.Src.Bool("candidates_catch_up") {
					s.w.Lock()
					for _, h := range []string{"h2", "c2"} {
						if s.w.Hosts[h].Chan != nil {
							s.w.Hosts[h].ApplyDelay = 0
						}
					}
					s.w.Unlock()
				}
				s.advance([]time.Duration{time.Second, 10 * time.Second, 2 * time.Minute}[c.Src.Int("advance", 0, 2)])
			}
			s.runFunc(p, "repairSlaveNode", func() {
				cs := p.app.getClusterStateFromDB()
				if cs["c1"] == nil || !cs["c1"].PingOk {
					return
				}
				p.app.repairSlaveNode(p.app.cluster.Get("c1"), cs, master)
			})
			s.raise()
		}
		if len(s.panics) > 0 {
			c.Class("panic-in-daemon(C20)")
		}
		if u := s.unknownStatements(); len(u) > 0 {
			c.Violation("harness-unknown-statement", "calibration: fake MySQL did not recognise %v", u)
		}
		if judged > 0 {
			c.Class("moved")
		}
		if hard || judged > 0 {
			c.NonTrivial()
		}
	})
}

// TestVerifC16Counts: cascade replicas do not take part in any HA count or in the active list
// (metamorphic: deleting every cascade host from the observed state changes nothing).
func TestVerifC16Counts(t *testing.T) {
	stt := vs.NewStats(t, "C16")
	stt.Rule = "countHANodes, countRunningHASlaves, countAliveHASlavesWithinNodes, getDubiousHAHosts on generated observed states of 1-4 HA hosts and 0-3 cascade hosts (alive/dead/dubious, replication running/stopped/absent): the result equals the result on the same state with every cascade host deleted, and names no cascade host; non-trivial = the state has a cascade host whose state would count were it an HA host"
	stt.Check(t, vs.CheckOpts{}, func(c *vs.Case) {
		full, haOnly := map[string]*nodestate.NodeState{}, map[string]*nodestate.NodeState{}
		var names []string
		nha, nc := c.Src.Int("ha", 1, 4), c.Src.Int("cascade", 0, 3)
		wouldCount := false
		for i := 0; i < nha+nc; i++ {
			name := fmt.Sprintf("n%d", i)
			names = append(names, name)
			ns := &nodestate.NodeState{IsCascade: i >= nha, PingOk: c.Src.Bool(name + ".ping")}
			if !ns.PingOk {
				ns.PingDubious = c.Src.Bool(name + ".dubious")
			}
			switch c.Src.Pick(name+".replication", "running", "stopped", "error", "none") {
			case "running":
				ns.SlaveState = &nodestate.SlaveState{ReplicationState: mysql.ReplicationRunning}
			case "stopped":
				ns.SlaveState = &nodestate.SlaveState{ReplicationState: mysql.ReplicationStopped}
			case "error":
				ns.SlaveState = &nodestate.SlaveState{ReplicationState: mysql.ReplicationError}
			}
			full[name] = ns
			if !ns.IsCascade {
				haOnly[name] = ns
			} else if ns.PingOk && ns.SlaveState != nil || ns.PingDubious {
				wouldCount = true
			}
		}
		var within []string
		for _, n := range names {
			if c.Src.Bool(n + ".in_list") {
				within = append(within, n)
			}
		}
		if nc > 0 {
			c.NonTrivial()
		}
		if wouldCount {
			c.Class("cascade-host-that-would-count")
		}
		c.Sample(map[string]any{"ha": nha, "cascade": nc, "within": within})
		chk := func(what string, a, b int) {
			if a != b {
				c.Violation("c16-cascade-counted@"+what, "%s = %d with the cascade hosts, %d without them; state %v", what, a, b, describeStates(full))
			}
		}
		chk("countHANodes", countHANodes(full), countHANodes(haOnly))
		chk("countRunningHASlaves", countRunningHASlaves(full), countRunningHASlaves(haOnly))
		chk("countAliveHASlavesWithinNodes", countAliveHASlavesWithinNodes(within, full), countAliveHASlavesWithinNodes(within, haOnly))
		for _, h := range getDubiousHAHosts(full) {
			if full[h].IsCascade {
				c.Violation("c16-cascade-counted@getDubiousHAHosts", "getDubiousHAHosts names cascade host %s; state %v", h, describeStates(full))
			}
		}
		chk("getDubiousHAHosts", len(getDubiousHAHosts(full)), len(getDubiousHAHosts(haOnly)))
	})
}

func describeStates(m map[string]*nodestate.NodeState) string {
	var names []string
	for n := range m {
		names = append(names, n)
	}
	sort.Strings(names)
	out := ""
	for _, n := range names {
		s := m[n]
		r := "none"
		if s.SlaveState != nil {
			r = fmt.Sprint(s.SlaveState.ReplicationState)
		}
		out += fmt.Sprintf("%s{cascade=%v ping=%v dubious=%v repl=%s} ", n, s.IsCascade, s.PingOk, s.PingDubious, r)
	}
	return out
}
