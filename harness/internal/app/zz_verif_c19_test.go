//go:build verif

package app

import (
	"encoding/json"
	"fmt"
	nodestate "github.com/yandex/mysync/internal/app/node_state"
	"os"
	"testing"
	"time"

	"github.com/yandex/mysync/internal/mysql"
	vs "github.com/yandex/mysync/internal/verifsim"
)

// TestVerifC19Sim: a node is never promoted while it carries mysync's relaxed settings or is
// still registered as optimising (the simulation half of C19).
func TestVerifC19Sim(t *testing.T) {
	stt := vs.NewStats(t, "C19")
	stt.Rule = "cluster simulation: warm semi-sync clusters of 3-4 HA hosts in which 1-2 replicas are registered in optimization_nodes (status new or enabled) and carry the relaxed settings, some lagging (apply delay 0/3s/20s with fresh writes) so that the pre-switchover speed-up phase really waits; request: --to (a registered or another replica), --from, automatic after a master crash, operator failover; processed by real manager ticks; oracle at the instant 'SET GLOBAL read_only = 0' reaches the promoted node: it is not in optimization_nodes and does not carry innodb_flush_log_at_trx_commit=2 / sync_binlog=1000; non-trivial = a promotion happened with at least one registered replica"
	stt.Assumptions = simAssumptions
	stt.Check(t, vs.CheckOpts{Bubble: true}, func(c *vs.Case) {
		n := c.Src.Int("ha_hosts", 3, 4)
		ha := []string{"h1", "h2", "h3", "h4"}[:n]
		o := simOpts{HA: ha, LogLevel: simLogLevel(), Cfg: map[string]string{"failover": "true", "failover_delay": "0s", "inactivation_delay": "5s",
			"slave_catch_up_timeout": "60s", "replication_convergence_timeout_switchover": c.Src.Pick("convergence_timeout", "10s", "300s")}}
		dir, _ := os.MkdirTemp("", "verifsim")
		defer os.RemoveAll(dir)
		s := newSim(c, c.RTOrT(t), dir, o)
		defer s.close()
		s.makeWarm("h1", append([]string{}, ha...), true, 1)
		status := c.Src.Pick("registry_status", "new", "enabled")
		nreg := c.Src.Int("registered_replicas", 1, 2)
		var regs []string
		for i := 0; i < nreg; i++ {
			h := ha[1+i]
			regs = append(regs, h)
			body := `{"status":""}`
			if status == "enabled" {
				body = `{"status":"enabled"}`
			}
			s.zk.RawSet(simNS+"/optimization_nodes", []byte(`""`))
			s.zk.RawSet(simNS+"/optimization_nodes/"+h, []byte(body))
			d := []time.Duration{0, 3 * time.Second, 20 * time.Second}[c.Src.Int("apply_delay."+h, 0, 2)]
			s.w.Lock()
			hh := s.w.Hosts[h]
			hh.FlushLog, hh.SyncBin = mysql.OptimalInnodbFlushLogAtTrxCommitValue, mysql.OptimalSyncBinlogValue
			hh.ApplyDelay = d
			s.w.Unlock()
		}
		for i := 0; i < 3; i++ {
			s.w.ClientWrite("h1", 200)
		}
		cs := &c01State{tickMaster: map[string]string{}, tickActive: map[string][]string{}, tickStmt: map[string]int{}, semi: true, wait: 1, checkOptimisation: true, optStatus: status}
		s.installC01Monitor(cs)
		for _, p := range s.alive() {
			s.run(p, "health")
		}
		kind := c.Src.Pick("request", "to-registered", "to-other", "from", "auto", "operator-failover")
		c.Class("request:" + kind)
		switch kind {
		case "to-registered":
			s.opSwitch("", regs[c.Src.Int("target", 0, len(regs)-1)], false, "operator")
		case "to-other":
			s.opSwitch("", ha[n-1], false, "operator")
		case "from":
			s.opSwitch("h1", "", false, "operator")
		case "operator-failover":
			s.opSwitch("h1", "", true, "operator")
		case "auto":
			s.crashMySQL("h1")
			for _, p := range s.alive() {
				s.run(p, "health")
			}
		}
		s.traceFrom = s.w.StmtLen()
		for r := 0; r < c.Src.Int("rounds", 3, 7); r++ {
			for _, p := range s.alive() {
				s.c01Tick(cs, p)
			}
			for _, p := range s.alive() {
				s.run(p, "health")
			}
			s.advance(2 * time.Second)
			s.raise()
		}
		if u := s.unknownStatements(); len(u) > 0 {
			c.Violation("harness-unknown-statement", "calibration: fake MySQL did not recognise %v", u)
		}
		if len(s.panics) > 0 {
			c.Class("panic-in-daemon(C20)")
			return
		}
		if len(cs.promotions) > 0 {
			c.Class("promoted")
			c.NonTrivial()
		}
		c.Sample(map[string]any{"hosts": n, "registered": regs, "status": status, "request": kind, "promotions": fmt.Sprintf("%+v", cs.promotions)})
	})
}

// TestVerifC19Steady: the optimisation sync of ordinary manager iterations (real syncer through
// the real cluster/DCS adapters) never drops a replica from the registry while it still carries
// the relaxed settings, whatever the replica's health record says.
func TestVerifC19Steady(t *testing.T) {
	stt := vs.NewStats(t, "C19")
	stt.Rule = "cluster simulation, no switch request: warm semi-sync clusters of 3-4 HA hosts with 1-2 replicas registered in optimization_nodes (status new or enabled) and carrying the relaxed settings; 6-24 actions from {manager iteration round, the registered replica's mysync killed (its health record expires while its mysqld lives) / restarted, its health record deleted or replaced by a stale 'ping failed' one, lag switched on (apply delay + writes) / off, time jump 5s/70s}; oracle after every round: a reachable HA replica that carries innodb_flush_log_at_trx_commit=2 / sync_binlog=1000 in ground truth is still registered in optimization_nodes; non-trivial = a registered replica left the registry during the case"
	stt.Assumptions = simAssumptions
	stt.Check(t, vs.CheckOpts{Bubble: true}, func(c *vs.Case) {
		n := c.Src.Int("ha_hosts", 3, 4)
		ha := []string{"h1", "h2", "h3", "h4"}[:n]
		o := simOpts{HA: ha, LogLevel: simLogLevel(), Cfg: map[string]string{"failover": "false", "inactivation_delay": "5s"}}
		dir, _ := os.MkdirTemp("", "verifsim")
		defer os.RemoveAll(dir)
		s := newSim(c, c.RTOrT(t), dir, o)
		defer s.close()
		s.makeWarm("h1", append([]string{}, ha...), true, 1)
		status := c.Src.Pick("registry_status", "new", "enabled")
		nreg := c.Src.Int("registered_replicas", 1, 2)
		var regs []string
		for i := 0; i < nreg; i++ {
			h := ha[1+i]
			regs = append(regs, h)
			body := `{"status":""}`
			if status == "enabled" {
				body = `{"status":"enabled"}`
			}
			s.zk.RawSet(simNS+"/optimization_nodes", []byte(`""`))
			s.zk.RawSet(simNS+"/optimization_nodes/"+h, []byte(body))
			s.w.Lock()
			hh := s.w.Hosts[h]
			hh.FlushLog, hh.SyncBin = mysql.OptimalInnodbFlushLogAtTrxCommitValue, mysql.OptimalSyncBinlogValue
			s.w.Unlock()
		}
		s.traceFrom = s.w.StmtLen()
		left := false
		check := func(step string) {
			s.w.Lock()
			defer s.w.Unlock()
			for _, h := range ha[1:] {
				hh := s.w.Hosts[h]
				relaxed := hh.FlushLog == mysql.OptimalInnodbFlushLogAtTrxCommitValue && hh.SyncBin == mysql.OptimalSyncBinlogValue
				_, registered := s.zkGet("optimization_nodes/" + h)
				if !registered {
					for _, r := range regs {
						if r == h {
							left = true
						}
					}
				}
				if hh.Up && relaxed && !registered {
					s.w.Unlock()
					s.dumpTrace(s.traceFrom)
					s.w.Lock()
					c.Violation("c19-untracked-relaxed-replica", "after %s: %s carries the relaxed durability settings (innodb_flush_log_at_trx_commit=%d sync_binlog=%d) but is no longer in optimization_nodes", step, h, hh.FlushLog, hh.SyncBin)
				}
			}
		}
		steps := c.Src.Int("steps", 6, 24)
		for i := 0; i < steps; i++ {
			r := regs[c.Src.Int("replica", 0, len(regs)-1)]
			act := c.Src.Pick("action", "round", "round", "round", "kill-its-mysync", "restart-its-mysync", "delete-its-health-record", "stale-bad-health-record", "lag-on", "lag-off", "advance")
			switch act {
			case "round":
				s.round(true)
				s.raise()
				check(fmt.Sprintf("step %d (round)", i))
			case "kill-its-mysync":
				if p := s.procs[r]; p != nil {
					s.killProc(p)
				}
			case "restart-its-mysync":
				if s.procs[r] == nil {
					s.startProc(r)
				}
			case "delete-its-health-record":
				s.zk.RawDelete(simNS + "/" + pathHealthPrefix + "/" + r)
			case "stale-bad-health-record":
				b, _ := json.Marshal(&nodestate.NodeState{CheckAt: time.Now().Add(-time.Hour), CheckBy: "ghost", PingOk: false})
				s.zk.RawSet(simNS+"/"+pathHealthPrefix+"/"+r, b)
			case "lag-on":
				s.w.Lock()
				s.w.Hosts[r].ApplyDelay = 20 * time.Second
				s.w.Unlock()
				s.w.ClientWrite("h1", 200)
			case "lag-off":
				s.w.Lock()
				s.w.Hosts[r].ApplyDelay = 0
				s.w.Unlock()
			case "advance":
				s.advance([]time.Duration{5 * time.Second, 70 * time.Second}[c.Src.Int("advance", 0, 1)])
			}
		}
		if u := s.unknownStatements(); len(u) > 0 {
			c.Violation("harness-unknown-statement", "calibration: fake MySQL did not recognise %v", u)
		}
		if len(s.panics) > 0 {
			c.Class("panic-in-daemon(C20)")
		}
		if left {
			c.Class("registered-replica-left-the-registry")
			c.NonTrivial()
		}
	})
}
