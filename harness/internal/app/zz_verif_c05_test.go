//go:build verif

package app

import (
	"encoding/json"
	"fmt"
	"os"
	"sort"
	"strings"
	"testing"
	"time"

	vs "github.com/yandex/mysync/internal/verifsim"
)

type c05Eval struct {
	at  time.Time
	bad bool
}

// c05Gates evaluates every gate of the statement from what the iteration could observe when
// it began (coordination tree + reachability/ground truth of the servers at that instant).
type c05Gates struct {
	enabled, noMaint, noSwitch, recordBad, delayOK, notAllReplicating, quorum, cooldownOK bool
	exception                                                                             string
	detail                                                                                string
}

func (g c05Gates) closed() []string {
	var c []string
	add := func(ok bool, n string) {
		if !ok {
			c = append(c, n)
		}
	}
	add(g.enabled, "failover-disabled")
	add(g.noMaint, "maintenance")
	add(g.noSwitch, "request-pending")
	add(g.recordBad, "master-record-good")
	if g.exception == "" {
		add(g.delayOK, "failover-delay")
		add(g.notAllReplicating, "all-replicas-replicating")
	}
	add(g.quorum, "no-quorum")
	add(g.cooldownOK, "cooldown")
	return c
}

// now is when the decision was taken: the instant the request was created, or the start of the
// iteration when nothing was filed (an iteration can spend virtual seconds in timeouts first).
func (s *sim) c05Evaluate(r *tickRec, hist map[string][]c05Eval, now time.Time) c05Gates {
	cfg := r.p.cfg
	master := r.masterBefore
	g := c05Gates{enabled: cfg.Failover, noMaint: r.maintBefore == nil, noSwitch: r.switchBefore == nil}
	hr := s.healthAt[r]
	g.recordBad = hr == nil || !hr.PingOk || hr.IsFileSystemReadonly
	if hr != nil && hr.DaemonState != nil && hr.DaemonState.CrashRecovery && cfg.ResetupCrashedHosts {
		g.exception = "crash-recovery"
		if hr.PingOk && !hr.IsFileSystemReadonly {
			// the after-crash path needs no bad record, but more than one HA node
			g.recordBad = true
		}
	} else if hr != nil && hr.IsFileSystemReadonly {
		g.exception = "read-only-filesystem"
	}
	// the record was bad at every evaluation by this process since the last good one, the first of them >= delay ago
	first := time.Time{}
	for _, e := range hist[r.p.id+"/"+master] {
		if !e.bad {
			first = time.Time{}
		} else if first.IsZero() {
			first = e.at
		}
	}
	if first.IsZero() {
		first = r.t0
	}
	g.delayOK = cfg.FailoverDelay <= 0 || now.Sub(first) >= cfg.FailoverDelay
	// ground truth as the manager can see it
	s.w.Lock()
	ha, running, alive := 0, 0, 0
	for _, n := range s.regHA[r] {
		ha++
		h := s.w.Hosts[n]
		if n == master || h == nil || !h.Up || s.w.ProcCut(r.p.id, n) || h.Chan == nil {
			continue
		}
		if h.Chan.IODesired && h.Chan.IOConnected && h.Chan.SQLDesired {
			running++
		}
		for _, a := range r.activeBefore {
			if a == n {
				alive++
			}
		}
	}
	s.w.Unlock()
	g.notAllReplicating = !(running > 0 && running == ha-1)
	if cfg.SemiSync {
		k := len(r.activeBefore) / 2
		if cfg.RplSemiSyncMasterWaitForSlaveCount < k {
			k = cfg.RplSemiSyncMasterWaitForSlaveCount
		}
		q := len(r.activeBefore) - k
		if q < 1 {
			q = 1
		}
		g.quorum = alive >= q
		g.detail = fmt.Sprintf("alive active replicas %d, quorum %d of list %v; running replicas %d of %d HA", alive, q, r.activeBefore, running, ha)
	} else {
		g.quorum = alive >= 1
		g.detail = fmt.Sprintf("alive active replicas %d (async needs 1); running replicas %d of %d HA", alive, running, ha)
	}
	g.cooldownOK = true
	var last Switchover
	if s.lastSwitchAt[r] != "" && json.Unmarshal([]byte(s.lastSwitchAt[r]), &last) == nil && last.Result != nil {
		if last.Cause == CauseAuto && now.Sub(last.Result.FinishedAt) < cfg.FailoverCooldown {
			g.cooldownOK = false
		}
	}
	return g
}

// TestVerifC05: an automatic failover request is filed only when every gate is open.
func TestVerifC05(t *testing.T) {
	stt := vs.NewStats(t, "C05")
	stt.Rule = "histories over converged clusters of 2-4 HA hosts +0-1 cascade replica (semi-sync with wait count 1-2, or async) with failover on/off, failover_delay 0/10s/60s, cooldown 5m/60m, resetup_crashed_hosts on/off: 12-45 actions from {tick of a drawn process, health check of a drawn process, round, time advance 1s-61min, master crash/start (plain or with crash-recovery marker), master isolated from the manager only, master's mysync killed/restarted, ZooKeeper cut of the master, read-only filesystem flag, replica crash/start, full/light maintenance on/leave, operator request/abort, stale active list, injected last_switch record (cause x age), manager's mysync killed/restarted}; oracle at every creation of 'switch' with cause auto: every gate of the statement evaluated from the coordination tree and the servers' reachability/ground truth at the start of the filing iteration plus the per-process history of master-record evaluations; converse clause for iterations that cannot reach a master whose own record is good; non-trivial = a failover was filed, or an iteration saw a bad master record with exactly one gate closed"
	stt.Assumptions = simAssumptions
	stt.Check(t, vs.CheckOpts{Bubble: true}, func(c *vs.Case) {
		n := c.Src.Int("ha_hosts", 2, 4)
		ha := []string{"h1", "h2", "h3", "h4"}[:n]
		semi := c.Src.Int("semi_sync", 0, 3) != 0
		o := simOpts{HA: ha, LogLevel: simLogLevel(), Cfg: map[string]string{
			"semi_sync": fmt.Sprint(semi), "rpl_semi_sync_master_wait_for_slave_count": fmt.Sprint(c.Src.Int("wait_count", 1, 2)),
			"failover": fmt.Sprint(c.Src.Int("failover", 0, 4) != 0), "failover_delay": c.Src.Pick("failover_delay", "0s", "10s", "60s"),
			"failover_cooldown": c.Src.Pick("cooldown", "5m", "60m"), "resetup_crashed_hosts": fmt.Sprint(c.Src.Int("resetup_crashed", 0, 2) == 0),
			"inactivation_delay": "5s", "slave_catch_up_timeout": "20s"}}
		if c.Src.Int("cascade", 0, 2) == 0 {
			o.Cascade = map[string]string{"c1": ha[c.Src.Int("cascade_source", 0, n-1)]}
		}
		dir, _ := os.MkdirTemp("", "verifsim")
		defer os.RemoveAll(dir)
		s := newSim(c, c.RTOrT(t), dir, o)
		defer s.close()
		if !s.converge(40) {
			c.Violation("harness-no-convergence", "calibration: no convergence from a cold start")
		}
		s.traceFrom = s.w.StmtLen()
		hist := map[string][]c05Eval{}
		mutSeen := s.zk.MutLen()
		var recs []*tickRec
		filed, oneClosed := 0, 0

		evalTick := func(r *tickRec) {
			if r == nil || !r.done {
				return
			}
			isMgr := r.stateBefore == stateManager && r.lockBefore == r.p.id && r.lockAfter == r.p.id
			// did this iteration file an automatic failover?
			var filedBy *Switchover
			now := r.t0
			changedByOthers := false
			for _, m := range s.zk.MutSnapshot()[r.mut0:r.mut1] {
				key := strings.TrimPrefix(m.Path, simNS+"/")
				if m.Client != r.p.id && (key == pathMaintenance || key == pathCurrentSwitch || key == pathActiveNodes || key == pathLastSwitch || strings.HasPrefix(key, pathHealthPrefix+"/"+r.masterBefore)) {
					changedByOthers = true
				}
				if m.Client == r.p.id && key == pathCurrentSwitch && m.Op == vs.OpCreate {
					var sw Switchover
					if json.Unmarshal(m.Data, &sw) == nil && sw.Cause == CauseAuto {
						filedBy = &sw
						now = m.At
					}
				}
			}
			if changedByOthers {
				c.Class("observation-changed-during-iteration(skipped)")
				// What this iteration saw is unknown - e.g. the master's record expired while the
				// iteration was still waiting for database timeouts, BEFORE it read the records.
				// Its failure clock may have started here: count it as a possible bad evaluation
				// (a bad one too many only makes the delay gate more lenient).
				if r.masterBefore != "" && (r.stateBefore == stateManager || r.stateAfter == stateManager) {
					hist[r.p.id+"/"+r.masterBefore] = append(hist[r.p.id+"/"+r.masterBefore], c05Eval{r.t0, true})
				}
				return
			}
			// An iteration runs several state handlers: leaving maintenance re-learns the master and
			// writes the master key, then the same iteration goes on as manager. What was sampled
			// when the iteration began is about the OLD recorded master: nothing to judge against.
			for _, m := range s.zk.MutSnapshot()[r.mut0:r.mut1] {
				if m.Client == r.p.id && m.Path == simNS+"/"+pathMasterNode && !m.At.After(now) {
					var nm string
					if json.Unmarshal(m.Data, &nm) == nil && nm != r.masterBefore {
						c.Class("master-re-learned-inside-the-iteration(skipped)")
						return
					}
				}
			}
			// the iteration itself may have rewritten the active list (leaving maintenance) before deciding
			for _, m := range s.zk.MutSnapshot()[r.mut0:r.mut1] {
				if m.Client == r.p.id && m.Path == simNS+"/"+pathActiveNodes && !m.At.After(now) {
					var a []string
					if m.Op == vs.OpDelete {
						r.activeBefore = nil
					} else if json.Unmarshal(m.Data, &a) == nil {
						r.activeBefore = a
					}
				}
			}
			g := s.c05Evaluate(r, hist, now)
			// an iteration runs several state handlers: it may itself have left maintenance
			// (deleting the record) before it went on as manager and filed
			for _, m := range s.zk.MutSnapshot()[r.mut0:r.mut1] {
				if m.Client == r.p.id && m.Path == simNS+"/"+pathMaintenance && m.Op == vs.OpDelete && !m.At.After(now) {
					g.noMaint = true
				}
			}
			// History of this process's evaluations of the master record. A bad evaluation is
			// recorded whenever the manager handler may have run in this iteration (also when the
			// process became manager within it); a good one only when it certainly did - missing a
			// good evaluation only makes the oracle more lenient.
			if r.masterBefore != "" {
				bad := g.recordBad && g.exception != "crash-recovery"
				mayHaveRun := r.stateBefore == stateManager || r.stateAfter == stateManager
				if (bad && mayHaveRun) || (!bad && isMgr && r.stateAfter == stateManager && r.maintBefore == nil && r.switchBefore == nil) {
					hist[r.p.id+"/"+r.masterBefore] = append(hist[r.p.id+"/"+r.masterBefore], c05Eval{r.t0, bad})
				}
			}
			if filedBy != nil {
				filed++
				if closed := g.closed(); len(closed) > 0 {
					s.dumpTrace(r.stmt0)
					var hs []string
					for _, e := range hist[r.p.id+"/"+r.masterBefore] {
						hs = append(hs, fmt.Sprintf("%s:bad=%v", e.at.Format("15:04:05"), e.bad))
					}
					c.Violation("c05-filed-with-closed-gate:"+closed[0], "%s filed an automatic failover of %s at %s although these gates were closed: %v (exception %q; %s; evaluations of the master record by this process: %v)\n%s",
						r.p.id, filedBy.From, r.t0.Format("15:04:05"), closed, g.exception, g.detail, hs, s.describe())
				}
				return
			}
			if isMgr && g.recordBad {
				if cl := g.closed(); len(cl) == 1 {
					oneClosed++
					c.Class("only-closed-gate:" + cl[0])
				} else if len(cl) == 0 && r.stateAfter == stateManager {
					c.Class("all-gates-open-but-not-filed")
				}
			}
			// converse clause: own ping to the master fails while the master's own record is good
			if isMgr && r.maintBefore == nil && r.switchBefore == nil && !g.recordBad && g.exception == "" {
				s.w.Lock()
				mh := s.w.Hosts[r.masterBefore]
				unreachable := mh == nil || !mh.Up || s.w.ProcCut(r.p.id, r.masterBefore)
				s.w.Unlock()
				if unreachable {
					c.Class("suspicious-master-iteration")
					for _, st := range s.w.StmtsSince(r.stmt0) {
						if st.Issuer == r.p.id && st.Mutating && !st.At.After(r.t1) {
							s.dumpTrace(r.stmt0)
							c.Violation("c05-repair-while-master-suspicious", "%s cannot reach master %s whose own health record is good, yet sent %q to %s in that iteration", r.p.id, r.masterBefore, st.Query, st.Target)
						}
					}
				}
			}
		}
		tick := func(p *simProc) {
			if s.anyBusy(p) {
				return
			}
			// what the coordination service shows right now (the iteration reads it within the same instant)
			r := s.beginTickWith(p, func(r *tickRec) {
				s.healthAt[r] = s.healthOf(r.masterBefore)
				s.regHA[r] = s.zk.Children(simNS + "/" + pathHANodes)
				s.lastSwitchAt[r], _ = s.zkGet(pathLastSwitch)
			})
			if r != nil {
				s.finishTick(r)
				evalTick(r)
				recs = append(recs, r)
			}
		}
		_ = mutSeen

		steps := c.Src.Int("steps", 12, 45)
		for i := 0; i < steps; i++ {
			master := s.masterKey()
			act := c.Src.Pick("action", "tick", "tick", "tick", "health", "health", "round", "advance", "crash-master", "start-master", "isolate-master-from-manager",
				"heal", "kill-master-mysync", "restart-mysyncs", "zk-cut-master", "fs-readonly", "fs-ok", "crash-replica", "start-replicas", "maint-full", "maint-light",
				"maint-leave", "file-request", "abort", "stale-active", "inject-last-switch", "kill-manager-mysync", "flap-master-record")
			ps := s.alive()
			switch act {
			case "tick":
				if len(ps) > 0 {
					tick(ps[c.Src.Int("proc", 0, len(ps)-1)])
				}
			case "health":
				if len(ps) > 0 {
					s.run(ps[c.Src.Int("proc", 0, len(ps)-1)], "health")
				}
			case "round":
				for _, p := range ps {
					s.run(p, "health")
				}
				for _, p := range s.alive() {
					tick(p)
				}
				s.advance(2 * time.Second)
			case "advance":
				s.advance([]time.Duration{time.Second, 4 * time.Second, 11 * time.Second, 61 * time.Second, 6 * time.Minute, 61 * time.Minute}[c.Src.Int("advance", 0, 5)])
			case "flap-master-record":
				// bad -> (wait) -> good -> bad again: the delay must restart from the second failure
				mp, mg := s.procs[master], s.manager()
				if mp == nil || mg == nil || mg == mp {
					break
				}
				waits := []time.Duration{time.Second, 6 * time.Second, 31 * time.Second}
				s.crashMySQL(master)
				s.run(mp, "health")
				tick(mg)
				s.advance(waits[c.Src.Int("flap.wait1", 0, 2)])
				tick(mg)
				s.startMySQL(master, false)
				s.run(mp, "health")
				tick(mg)
				s.crashMySQL(master)
				s.run(mp, "health")
				tick(mg)
				s.advance(waits[c.Src.Int("flap.wait2", 0, 2)])
				tick(mg)
				c.Class("flapping-master-record")
			case "crash-master":
				s.crashMySQL(master)
			case "start-master":
				for _, h := range ha {
					s.w.Lock()
					up := s.w.Hosts[h].Up
					s.w.Unlock()
					if !up && (h == master || c.Src.Bool("start_any")) {
						s.startMySQL(h, c.Src.Bool("with_crash_recovery_marker"))
					}
				}
			case "isolate-master-from-manager":
				if m := s.manager(); m != nil && m.host != master {
					s.w.CutPair(m.host, master, true)
				}
			case "heal":
				for _, a := range s.hostNames() {
					for _, b := range s.hostNames() {
						s.w.CutPair(a, b, false)
					}
				}
				for _, p := range s.alive() {
					s.zk.Link(p.id).Set(func(l *vs.ZKLink) { l.Refuse = false })
				}
			case "kill-master-mysync":
				if p := s.procs[master]; p != nil {
					s.killProc(p)
				}
			case "restart-mysyncs":
				for _, h := range s.hostNames() {
					if s.procs[h] == nil {
						s.startProc(h)
					}
				}
			case "zk-cut-master":
				if p := s.procs[master]; p != nil {
					l := s.zk.Link(p.id)
					l.Set(func(l *vs.ZKLink) { l.Refuse = true })
					l.Sever()
				}
			case "fs-readonly":
				s.writeHostFile(master, "readonly", "true")
			case "fs-ok":
				for _, h := range s.hostNames() {
					s.writeHostFile(h, "readonly", "false")
				}
			case "crash-replica":
				var reps []string
				for _, h := range ha {
					if h != master {
						reps = append(reps, h)
					}
				}
				s.crashMySQL(reps[c.Src.Int("replica", 0, len(reps)-1)])
			case "start-replicas":
				for _, h := range ha {
					s.w.Lock()
					up := s.w.Hosts[h].Up
					s.w.Unlock()
					if !up && h != master {
						s.startMySQL(h, false)
					}
				}
			case "maint-full":
				s.opMaintenance(FullMode)
			case "maint-light":
				s.opMaintenance(LightMode)
			case "maint-leave":
				s.opLeaveMaintenance()
			case "file-request":
				s.opSwitch(master, "", c.Src.Bool("failover_flag"), "operator")
			case "abort":
				s.opAbort()
			case "stale-active":
				a := s.activeNodes()
				if len(a) > 1 && c.Src.Bool("drop_member") {
					a = a[:len(a)-1]
				} else {
					a = append([]string{}, ha...)
				}
				sort.Strings(a)
				b, _ := json.Marshal(a)
				s.zk.RawSet(simNS+"/"+pathActiveNodes, b)
			case "inject-last-switch":
				age := []time.Duration{10 * time.Second, 4 * time.Minute, 6 * time.Minute, 59 * time.Minute, 61 * time.Minute}[c.Src.Int("last_switch_age", 0, 4)]
				cause := c.Src.Pick("last_switch_cause", CauseAuto, CauseManual)
				b, _ := json.Marshal(&Switchover{From: "hx", Cause: cause, InitiatedBy: "past", InitiatedAt: time.Now().Add(-age - time.Minute), MasterTransition: FailoverTransition,
					Result: &SwitchoverResult{Ok: true, FinishedAt: time.Now().Add(-age)}})
				s.zk.RawSet(simNS+"/"+pathLastSwitch, b)
			case "kill-manager-mysync":
				if m := s.manager(); m != nil && len(s.alive()) > 1 {
					s.killProc(m)
				}
			}
			s.raise()
		}
		if u := s.unknownStatements(); len(u) > 0 {
			c.Violation("harness-unknown-statement", "calibration: fake MySQL did not recognise %v", u)
		}
		if len(s.panics) > 0 {
			c.Class("panic-in-daemon(C20)")
		}
		if filed > 0 {
			c.Class("failover-filed")
		}
		if filed > 0 || oneClosed > 0 {
			c.NonTrivial()
		}
	})
}
