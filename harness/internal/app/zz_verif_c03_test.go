//go:build verif

package app

import (
	"fmt"
	"os"
	"strings"
	"testing"
	"time"

	vs "github.com/yandex/mysync/internal/verifsim"
)

var c03GuardedKeys = []string{pathMasterNode, pathActiveNodes, pathCurrentSwitch, pathLastSwitch, pathLastRejectedSwitch, pathMaintenance, pathLowSpace}

// c03CheckTick: the daemon-layer half of C03 on one completed iteration.
func (s *sim) c03CheckTick(r *tickRec) (sig, msg string) {
	if r == nil || !r.done {
		return "", ""
	}
	s.mu.Lock()
	var locks []lockEvent
	for _, e := range s.lockEvents {
		if e.proc == r.p.id && !e.at.Before(r.t0) && !e.at.After(r.t1) {
			locks = append(locks, e)
		}
	}
	s.mu.Unlock()
	heldBefore := func(stmtIdx, mutIdx int) bool {
		for _, e := range locks {
			if e.ok && e.stmt <= stmtIdx && e.mut <= mutIdx {
				return true
			}
		}
		return false
	}
	all := s.w.StmtsSince(0)
	var mine []vs.Stmt
	var mineIdx []int
	for i := r.stmt0; i < len(all) && i < r.stmt1+64; i++ {
		st := all[i]
		if st.Issuer == r.p.id && !st.At.Before(r.t0) && !st.At.After(r.t1) {
			mine = append(mine, st)
			mineIdx = append(mineIdx, i)
		}
	}
	// (1) cluster-wide actions only after a true lock answer earlier in the same iteration
	for k, st := range mine {
		if st.Mutating && st.Target != r.p.host && !heldBefore(mineIdx[k], 1<<30) {
			return "c03-action-without-lock", fmt.Sprintf("%s sent %q to %s without having been told in that iteration that it holds the manager lock (state %s -> %s)", r.p.id, st.Query, st.Target, r.stateBefore, r.stateAfter)
		}
	}
	muts := s.zk.MutSnapshot()
	for i := r.mut0; i < r.mut1 && i < len(muts); i++ {
		m := muts[i]
		if m.Client != r.p.id {
			continue
		}
		key := strings.TrimPrefix(m.Path, simNS+"/")
		guarded := strings.HasPrefix(key, pathRecovery+"/") && m.Op == vs.OpCreate
		for _, g := range c03GuardedKeys {
			guarded = guarded || key == g
		}
		if guarded && !heldBefore(1<<30, i) {
			return "c03-publish-without-lock", fmt.Sprintf("%s changed %s (%s) without having been told in that iteration that it holds the manager lock", r.p.id, key, vs.OpName(m.Op))
		}
	}
	// (2) a promoting iteration re-confirms the lock after the freeze and after the catch-up
	promoted := ""
	for _, st := range mine {
		if st.Class == "set_writable" && st.Outcome == "ok" && st.Target != r.masterBefore && r.masterBefore != "" {
			promoted = st.Target
		}
	}
	if promoted == "" {
		return "", ""
	}
	irrevocable, lastFreeze, lastCatchUp := -1, -1, -1
	for k, st := range mine {
		if (st.Class == "change_source" && st.Arg == promoted && st.Target != promoted) || (st.Class == "reset_replica_all" && st.Target == promoted) {
			irrevocable = k
			break
		}
		if st.Class == "set_ro" || st.Class == "stop_io" {
			lastFreeze = k
		}
		if st.Class == "gtid_executed" && st.Target == promoted && lastFreeze >= 0 {
			lastCatchUp = k
		}
	}
	if irrevocable < 0 || lastFreeze < 0 {
		return "", ""
	}
	n, afterFreeze, afterCatchUp := 0, false, false
	for _, e := range locks {
		if !e.ok || e.stmt > mineIdx[irrevocable] {
			continue
		}
		n++
		if e.stmt > mineIdx[lastFreeze] {
			afterFreeze = true
		}
		if lastCatchUp < 0 || e.stmt > mineIdx[lastCatchUp] {
			afterCatchUp = true
		}
	}
	if n < 3 || !afterFreeze || !afterCatchUp {
		return "c03-promotion-without-reconfirmation", fmt.Sprintf("%s promoted %s: before the first irrevocable statement (%q to %s) it was told %d times that it holds the lock (after the freeze: %v, after the catch-up: %v); the property demands re-confirmation after freezing and again after catch-up",
			r.p.id, promoted, mine[irrevocable].Query[:min(60, len(mine[irrevocable].Query))], mine[irrevocable].Target, n, afterFreeze, afterCatchUp)
	}
	return "", ""
}

// TestVerifC03Daemon: only the lock holder acts, and a switchover re-confirms the lock.
func TestVerifC03Daemon(t *testing.T) {
	stt := vs.NewStats(t, "C03")
	stt.Rule = "daemon layer: histories over converged clusters of 2-4 HA hosts: rounds of recorded iterations of every daemon, switch requests (to/from/failover), master crash/start, ZooKeeper cut of a drawn daemon (also the manager, also while its iteration is in flight) and healing, a hanging or failing freeze statement, slow catch-up (apply delay), time advances; every AcquireLock answer is recorded by a decorator around the real zkDCS; oracle per completed iteration: mutating SQL to other hosts and writes of master/active_nodes/switch/last_switch/last_rejected_switch/maintenance/low_space/recovery marks happen only after a true lock answer in that iteration, and a promoting iteration has >=3 true answers before its first irrevocable statement, one after the last freeze statement and one after the last catch-up poll; non-trivial = a promotion was checked or the lock moved between daemons"
	stt.Assumptions = simAssumptions
	stt.Check(t, vs.CheckOpts{Bubble: true}, func(c *vs.Case) {
		n := c.Src.Int("ha_hosts", 2, 4)
		ha := []string{"h1", "h2", "h3", "h4"}[:n]
		o := simOpts{HA: ha, LogLevel: simLogLevel(), Cfg: map[string]string{"failover": "true", "failover_delay": "0s", "inactivation_delay": "5s",
			"slave_catch_up_timeout": "40s", "db_set_ro_timeout": "8s", "db_set_ro_force_timeout": "8s", "failover_cooldown": "0s"}}
		dir, _ := os.MkdirTemp("", "verifsim")
		defer os.RemoveAll(dir)
		s := newSim(c, c.RTOrT(t), dir, o)
		defer s.close()
		if !s.converge(40) {
			c.Violation("harness-no-convergence", "calibration: no convergence from a cold start")
		}
		s.traceFrom = s.w.StmtLen()
		var inflight []*tickRec
		promos, owners := 0, map[string]bool{}
		check := func(r *tickRec) {
			if r == nil || !r.done {
				return
			}
			for _, st := range s.w.StmtsSince(r.stmt0) {
				if st.Issuer == r.p.id && st.Class == "set_writable" && st.Target != r.masterBefore && !st.At.After(r.t1) {
					promos++
				}
			}
			if r.lockAfter != "" {
				owners[r.lockAfter] = true
			}
			if sig, msg := s.c03CheckTick(r); sig != "" {
				s.dumpTrace(r.stmt0)
				c.Violation(sig, "%s", msg)
			}
		}
		poll := func() {
			var keep []*tickRec
			for _, r := range inflight {
				if r.done {
					check(r)
				} else {
					keep = append(keep, r)
				}
			}
			inflight = keep
			s.raise()
		}
		steps := c.Src.Int("steps", 8, 30)
		for i := 0; i < steps; i++ {
			master := s.masterKey()
			act := c.Src.Pick("action", "round", "round", "round", "tick-inflight", "file", "crash-master", "start-hosts", "zk-cut", "zk-heal", "slow-freeze", "slow-catch-up", "clear", "advance")
			ps := s.alive()
			switch act {
			case "round":
				for _, p := range ps {
					s.run(p, "health")
				}
				for _, p := range s.alive() {
					if r := s.beginTick(p); r != nil {
						s.finishTick(r)
						check(r)
					}
					poll()
				}
				s.advance(2 * time.Second)
			case "tick-inflight":
				if len(ps) > 0 {
					if r := s.beginTick(ps[c.Src.Int("proc", 0, len(ps)-1)]); r != nil {
						inflight = append(inflight, r)
					}
				}
			case "file":
				var other string
				for _, h := range ha {
					if h != master {
						other = h
					}
				}
				switch c.Src.Pick("request", "to", "from", "failover") {
				case "to":
					s.opSwitch("", other, false, "operator")
				case "from":
					s.opSwitch(master, "", false, "operator")
				case "failover":
					s.opSwitch(master, "", true, "operator")
				}
			case "crash-master":
				s.crashMySQL(master)
			case "start-hosts":
				for _, h := range s.hostNames() {
					s.w.Lock()
					up := s.w.Hosts[h].Up
					s.w.Unlock()
					if !up {
						s.startMySQL(h, true)
					}
				}
			case "zk-cut":
				if len(ps) > 0 {
					p := ps[c.Src.Int("proc", 0, len(ps)-1)]
					if c.Src.Bool("cut_manager") && s.manager() != nil {
						p = s.manager()
					}
					l := s.zk.Link(p.id)
					l.Set(func(l *vs.ZKLink) { l.Refuse = true })
					l.Sever()
				}
			case "zk-heal":
				for _, p := range ps {
					s.zk.Link(p.id).Set(func(l *vs.ZKLink) { l.Refuse = false })
				}
			case "slow-freeze":
				s.w.AddFault(&vs.Fault{Target: ha[c.Src.Int("fault.target", 0, n-1)], Class: c.Src.Pick("fault.class", "set_ro", "stop_io"), Nth: 1, Kind: c.Src.Pick("fault.kind", "hang", "err"), Code: 1205})
			case "slow-catch-up":
				h := ha[c.Src.Int("slow.host", 0, n-1)]
				s.w.Lock()
				s.w.Hosts[h].ApplyDelay = []time.Duration{3 * time.Second, 12 * time.Second}[c.Src.Int("slow.delay", 0, 1)]
				s.w.Unlock()
				s.w.ClientWrite(master, 200)
			case "clear":
				s.w.ClearFaults()
			case "advance":
				s.advance([]time.Duration{time.Second, 4 * time.Second, 15 * time.Second, 70 * time.Second}[c.Src.Int("advance", 0, 3)])
			}
			poll()
		}
		for _, r := range inflight {
			s.finishTick(r)
			check(r)
		}
		if u := s.unknownStatements(); len(u) > 0 {
			c.Violation("harness-unknown-statement", "calibration: fake MySQL did not recognise %v", u)
		}
		if len(s.panics) > 0 {
			c.Class("panic-in-daemon(C20)")
		}
		if promos > 0 {
			c.Class("promotion-checked")
			c.NonTrivial()
		}
		if len(owners) > 1 {
			c.Class("lock-moved")
			c.NonTrivial()
		}
	})
}
