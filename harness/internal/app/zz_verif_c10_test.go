//go:build verif

package app

import (
	"fmt"
	"os"
	"strings"
	"testing"
	"time"

	vs "github.com/yandex/mysync/internal/verifsim"
)

var c10ReplKinds = []string{"ok", "from-other", "from-decoy", "none", "io-stopped", "sql-stopped", "both-stopped", "sql-error", "sql-error-cured"}

type c10Node struct {
	ro       int // 0 writable, 1 read_only, 2 super_read_only
	offline  bool
	repl     string
	ssMaster bool
	ssSlave  bool
	ownTxns  int // transactions of the host's own server id the master lacks (a diverged stale master)
}

type c10Scenario struct {
	n           int
	semi        bool
	aggressive  bool
	maxAttempts int
	master      c10Node
	reps        []c10Node
	faults      []vs.Fault
	faultRounds int
	cureRound   int
	lateFault   string // statement class that keeps failing on the hosts with an SQL error for the whole run ("" none)
}

func (sc c10Scenario) String() string {
	var sb strings.Builder
	fmt.Fprintf(&sb, "n=%d semi=%v aggressive=%v max_attempts=%d master{ro=%d off=%v ssm=%v sss=%v}", sc.n, sc.semi, sc.aggressive, sc.maxAttempts, sc.master.ro, sc.master.offline, sc.master.ssMaster, sc.master.ssSlave)
	for i, r := range sc.reps {
		fmt.Fprintf(&sb, " h%d{ro=%d off=%v repl=%s ssm=%v sss=%v own=%d}", i+2, r.ro, r.offline, r.repl, r.ssMaster, r.ssSlave, r.ownTxns)
	}
	fmt.Fprintf(&sb, " faults=%d", len(sc.faults))
	return sb.String()
}

func c10DrawNode(c *vs.Case, name string, master bool) c10Node {
	nd := c10Node{ro: c.Src.Int(name+".read_only", 0, 2), offline: c.Src.Bool(name + ".offline"), ssMaster: c.Src.Bool(name + ".semi_sync_master"), ssSlave: c.Src.Bool(name + ".semi_sync_slave"), repl: "none"}
	if !master {
		nd.repl = c10ReplKinds[c.Src.Int(name+".replication", 0, len(c10ReplKinds)-1)]
		if nd.repl == "none" {
			nd.ownTxns = c.Src.Int(name+".own_txns", 0, 2)
		}
	}
	return nd
}

const c10Cooldown = 10 * time.Second

// c10Run arranges the scenario, runs manager iterations and judges. Returns the signature
// and message of the first violation.
func c10Run(c *vs.Case, t *testing.T, sc c10Scenario) (sig, msg string) {
	ha := []string{"h1", "h2", "h3", "h4"}[:sc.n]
	master := "h1"
	o := simOpts{HA: ha, LogLevel: simLogLevel(), Cfg: map[string]string{"semi_sync": fmt.Sprint(sc.semi), "replication_repair_aggressive_mode": fmt.Sprint(sc.aggressive),
		"replication_repair_max_attempts": fmt.Sprint(sc.maxAttempts), "replication_repair_cooldown": c10Cooldown.String(), "resetup_crashed_hosts": "false"}}
	dir, _ := os.MkdirTemp("", "verifsim")
	defer os.RemoveAll(dir)
	s := newSim(c, c.RTOrT(t), dir, o)
	defer s.close()
	s.makeWarm(master, append([]string{}, ha...), false, 0)
	now := time.Now()
	// an unregistered server on the same network, replicating from the master
	s.w.Lock()
	d := s.w.AddHost("d1", uuidFor(9), o.Ver)
	d.SeedTxns(uuidFor(0), 1, 5, now.Add(-10*time.Minute), 300)
	d.Chan = vs.NewChannel(master, true)
	d.RO, d.SRO, d.Offline = true, true, false
	mh := s.w.Hosts[master]
	// two more transactions on the master: the first is what a poisoned replica chokes on
	for g := int64(6); g <= 7; g++ {
		mh.AddExecuted(vs.Txn{UUID: uuidFor(0), Gno: g, Size: 300, At: now.Add(-time.Minute)})
	}
	apply := func(h *vs.MyHost, nd c10Node) {
		h.RO, h.SRO, h.Offline = nd.ro >= 1, nd.ro >= 2, nd.offline
		h.SSMaster, h.SSSlave = nd.ssMaster, nd.ssSlave
	}
	apply(mh, sc.master)
	poisoned := map[string]bool{}
	stale := map[string]bool{}
	for i, nd := range sc.reps {
		name := ha[i+1]
		h := s.w.Hosts[name]
		apply(h, nd)
		switch nd.repl {
		case "ok":
		case "from-other":
			h.Chan = vs.NewChannel(ha[1+(i+1)%len(sc.reps)], true)
			if h.Chan.Source == name {
				h.Chan = vs.NewChannel("d1", true)
			}
		case "from-decoy":
			h.Chan = vs.NewChannel("d1", true)
		case "none":
			h.Chan = nil
			stale[name] = true
			for g := 1; g <= nd.ownTxns; g++ {
				h.AddExecuted(vs.Txn{UUID: h.UUID, Gno: int64(g), Size: 100, At: now.Add(-time.Minute)})
			}
		case "io-stopped":
			h.Chan.IODesired = false
		case "sql-stopped":
			h.Chan.SQLDesired = false
		case "both-stopped":
			h.Chan.IODesired, h.Chan.SQLDesired = false, false
		case "sql-error", "sql-error-cured":
			h.Poison(uuidFor(0), 6, 1062)
			poisoned[name] = true
		}
	}
	s.w.SettleLocked()
	s.w.Unlock()
	start := time.Now()
	s.traceFrom = s.w.StmtLen()
	mut0 := s.zk.MutLen()
	// ---- monitors at the instant of effect
	type resetRec struct{ at time.Time }
	resets := map[string][]resetRec{}
	s.w.OnStatement = func(w *vs.MyWorld, st *vs.Stmt, h *vs.MyHost) {
		if st.Target == "d1" {
			s.report("c10-statement-to-unregistered-host", "%s sent %q to d1, which is not registered in the cluster", st.Issuer, st.Query)
		}
		switch st.Class {
		case "change_source":
			if st.Arg == st.Target {
				s.report("c10-pointed-at-itself", "%s is pointed at itself: %q", st.Target, st.Query)
			}
			if _, reg := w.Hosts[st.Arg]; !reg || st.Arg == "d1" {
				s.report("c10-pointed-at-unregistered-host", "%s is pointed at %q: %q", st.Target, st.Arg, st.Query)
			}
		case "reset_replica_all":
			if st.Target == master {
				return
			}
			if sc.lateFault == "start-after-reset" {
				// the last statement of the reset method fails: the attempt failed, but it was made
				w.Faults = append(w.Faults, &vs.Fault{Target: st.Target, Class: "start_replica", Nth: 1, Kind: "err", Code: 1205})
			}
			key := st.Issuer + ">" + st.Target
			why := ""
			switch {
			case !sc.aggressive:
				why = "aggressive repair is disabled"
			case st.At.Sub(start) < time.Duration(sc.maxAttempts+1)*c10Cooldown:
				why = fmt.Sprintf("only %v into the run: %d attempts of the milder method, each after a cooldown of %v, cannot have been made", st.At.Sub(start), sc.maxAttempts, c10Cooldown)
			case len(resets[key]) >= sc.maxAttempts:
				why = fmt.Sprintf("it is reset no. %d by this process with replication_repair_max_attempts=%d", len(resets[key])+1, sc.maxAttempts)
			case len(resets[key]) > 0 && st.At.Sub(resets[key][len(resets[key])-1].at) < c10Cooldown:
				why = fmt.Sprintf("previous reset was %v ago, cooldown is %v", st.At.Sub(resets[key][len(resets[key])-1].at), c10Cooldown)
			}
			resets[key] = append(resets[key], resetRec{st.At})
			if why != "" {
				s.report("c10-unjustified-reset", "replication configuration of %s was reset by %s: %s", st.Target, st.Issuer, why)
			}
		}
	}
	checkMaster := func() {
		if m := s.masterKey(); m != master {
			c.Violation("c10-master-changed", "recorded master became %q (was %s)\n%s", m, master, s.describe())
		}
	}
	// ---- iterations under faults
	for i := range sc.faults {
		f := sc.faults[i]
		s.w.AddFault(&f)
	}
	rounds := 0
	wentOffline := map[string]bool{}
	step := func() {
		s.round(true)
		rounds++
		s.w.Lock()
		for _, n := range ha {
			if s.w.Hosts[n].Offline {
				wentOffline[n] = true
			}
		}
		s.w.Unlock()
		if rounds == sc.cureRound {
			s.w.Lock()
			for i, nd := range sc.reps {
				if nd.repl == "sql-error-cured" {
					s.w.Hosts[ha[i+1]].Cure(uuidFor(0), 6)
				}
			}
			s.w.Unlock()
		}
		checkMaster()
		s.raise()
	}
	for i := 0; i < sc.faultRounds; i++ {
		step()
	}
	s.w.ClearFaults()
	if sc.lateFault != "" && sc.lateFault != "start-after-reset" {
		// a statement of the repair methods keeps failing on the broken hosts: failed attempts
		// have to count against the limit and the cooldown just like successful ones
		for h := range poisoned {
			s.w.AddFault(&vs.Fault{Target: h, Class: sc.lateFault, Nth: 1, Kind: "err", Code: 1205, Sticky: true})
		}
	}
	// ---- iterations until nothing changes (time jumps cover the repair cooldowns)
	stable, last := 0, ""
	minRun := time.Duration(0)
	if len(poisoned) > 0 {
		minRun = time.Duration(2*sc.maxAttempts+3) * c10Cooldown // every allowed repair attempt gets its turn
	}
	for i := 0; i < 60+12*sc.maxAttempts && (stable < 6 || time.Since(start) < minRun); i++ {
		step()
		if i%4 == 3 {
			s.advance(c10Cooldown)
		}
		if fp := s.fingerprint(); fp == last {
			stable++
		} else {
			stable, last = 0, fp
		}
	}
	if len(s.panics) > 0 {
		c.Class("panic-in-daemon(C20)")
		return "", ""
	}
	if u := s.unknownStatements(); len(u) > 0 {
		c.Violation("harness-unknown-statement", "calibration: fake MySQL did not recognise %v", u)
	}
	if stable < 6 {
		c.Class("still-changing-at-the-end")
	}
	if len(resets) > 0 {
		c.Class("replication-configuration-reset-judged")
	}
	// ---- end state
	marked := map[string]bool{}
	for _, m := range s.zk.MutSnapshot()[mut0:] {
		if strings.HasPrefix(m.Path, simNS+"/"+pathRecovery+"/") && (m.Op == vs.OpCreate || m.Op == vs.OpSetData) {
			marked[strings.TrimPrefix(m.Path, simNS+"/"+pathRecovery+"/")] = true
		}
	}
	offlineFailed := map[string]bool{}
	for _, st := range s.w.StmtsSince(s.traceFrom) {
		if st.Class == "offline_on" && (st.Outcome == "ok" || st.Outcome == "cut-after") {
			wentOffline[st.Target] = true
		} else if st.Class == "offline_on" {
			offlineFailed[st.Target] = true
		}
	}
	s.w.Lock()
	defer s.w.Unlock()
	s.w.SettleLocked()
	fail := func(sg, format string, a ...any) (string, string) {
		return sg, fmt.Sprintf(format, a...)
	}
	m := s.w.Hosts[master]
	if m.RO || m.Offline {
		return fail("c10-master-not-serving", "after %d iterations the master is read-only=%v offline=%v", rounds, m.RO, m.Offline)
	}
	if m.Chan != nil {
		return fail("c10-master-replicating", "the master was given a replication source: %+v", m.Chan)
	}
	active := s.activeNodes()
	if !sc.semi && m.SSMaster {
		return fail("c10-master-semisync", "semi-sync is disabled in the configuration but still enabled on the master")
	}
	if sc.semi {
		want := len(active) / 2
		if want > 1 {
			want = 1 // rpl_semi_sync_master_wait_for_slave_count of the configuration
		}
		if (want > 0) != m.SSMaster || (want > 0 && m.SSWait != want) {
			return fail("c10-master-semisync", "active list %v implies wait count %d, master has enabled=%v wait=%d", active, want, m.SSMaster, m.SSWait)
		}
	}
	for i, nd := range sc.reps {
		name := ha[i+1]
		h := s.w.Hosts[name]
		if !h.RO {
			return fail("c10-replica-writable", "%s (initially %+v) is still writable after %d iterations", name, nd, rounds)
		}
		if sc.lateFault != "" && sc.lateFault != "start-after-reset" && poisoned[name] {
			continue // a repair statement never succeeds on this host: only the safety clauses apply to it
		}
		if h.Chan == nil || h.Chan.Source != master {
			return fail("c10-replica-not-following", "%s (initially %+v) is not a replica of %s: channel %+v", name, nd, master, h.Chan)
		}
		broken := poisoned[name] // its repair budget may be spent (or the poison is still there)
		if !broken && (!h.Chan.IODesired || !h.Chan.IOConnected || !h.Chan.SQLDesired) {
			return fail("c10-replica-not-running", "%s (initially %+v) points at %s but replication does not run: %+v", name, nd, master, h.Chan)
		}
		if stale[name] {
			if !marked[name] {
				return fail("c10-stale-master-not-marked", "%s claimed to be master beside %s but was never marked for recovery", name, master)
			}
			if !nd.offline && !wentOffline[name] {
				if offlineFailed[name] {
					// the attempt was made and failed; it is never repeated (known finding)
					return fail("c10-stale-master-not-offline@set-offline-failed-once", "%s claimed to be master beside %s; the statement taking it offline failed once and was never repeated: it was turned into a replica and marked for recovery while staying online", name, master)
				}
				return fail("c10-stale-master-not-offline", "%s claimed to be master beside %s but no attempt was made to take it offline", name, master)
			}
		}
	}
	return "", ""
}

// TestVerifC10: repair from generated initial states, with failing statements.
func TestVerifC10(t *testing.T) {
	stt := vs.NewStats(t, "C10")
	stt.Rule = "3-4 HA hosts with a recorded, reachable master h1 and an unregistered server d1 on the same network; initial state drawn per host from read_only {off, on, super} x offline x semi-sync master/slave flags x replication {ok, from another replica, from d1, none (claims to be master, 0-2 own transactions), IO stopped, SQL stopped, both stopped, SQL error persistent, SQL error cured after a drawn iteration}; semi_sync on/off, aggressive repair on/off, max attempts 1-3, cooldown 10s; 0-4 statements failing (error / connection cut before or after execution / hang) at drawn positions during the first 0-6 iterations; optionally one statement class of the repair methods (START/STOP REPLICA, CHANGE SOURCE, offline_mode) failing on the broken hosts for the whole run; then fault-free iterations with time jumps until the observable state is stable; oracles: at every statement (none reaches d1, no server pointed at itself or at d1, RESET REPLICA ALL only with aggressive repair, not before (max_attempts+1) cooldowns, at most max_attempts per host, cooldown apart), master key unchanged after every iteration, end state as the statement lists; non-trivial = at least one host started in a state needing repair"
	stt.Assumptions = simAssumptions
	stt.Check(t, vs.CheckOpts{Bubble: true}, func(c *vs.Case) {
		sc := c10Scenario{n: c.Src.Int("hosts", 3, 4), semi: c.Src.Bool("semi_sync"), aggressive: c.Src.Bool("aggressive_repair"), maxAttempts: c.Src.Int("max_attempts", 1, 3)}
		sc.master = c10DrawNode(c, "h1", true)
		needs := sc.master.ro > 0 || sc.master.offline
		for i := 1; i < sc.n; i++ {
			nd := c10DrawNode(c, fmt.Sprintf("h%d", i+1), false)
			sc.reps = append(sc.reps, nd)
			if nd.repl != "ok" || nd.ro == 0 {
				needs = true
			}
			c.Class("replication:" + nd.repl)
		}
		nf := c.Src.Int("faults", 0, 4)
		classes := []string{"set_ro", "set_writable", "stop_replica", "start_replica", "change_source", "offline_on", "offline_off", "replica_status", "ss_master_on", "ss_slave_on", "reset_replica_all", "stop_io", "gtid_executed"}
		for i := 0; i < nf; i++ {
			tg, cl := []string{"", "h1", "h2", "h3"}[c.Src.Int("fault.target", 0, 3)], classes[c.Src.Int("fault.class", 0, len(classes)-1)]
			if c.Src.Bool("fault.on_repair_of_a_broken_host") {
				// aim at the repair statements of a host that needs repair
				var need []string
				for i, nd := range sc.reps {
					if nd.repl != "ok" {
						need = append(need, fmt.Sprintf("h%d", i+2))
					}
				}
				if len(need) > 0 {
					tg = need[c.Src.Int("fault.broken_host", 0, len(need)-1)]
					cl = c.Src.Pick("fault.repair_class", "stop_replica", "change_source", "start_replica", "set_ro", "offline_on", "ss_master_off")
				}
			}
			if !vs.MutatingClass[cl] && tg != "h3" {
				tg = "h2" // a failing read on the master would make it look unhealthy: outside the property's premise
			}
			sc.faults = append(sc.faults, vs.Fault{Target: tg, Class: cl,
				Nth: c.Src.Int("fault.nth", 1, 6), Kind: c.Src.Pick("fault.kind", "err", "err", "cut-before", "cut-after", "hang"), Code: 1205})
		}
		if nf > 0 {
			sc.faultRounds = c.Src.Int("fault_rounds", 1, 6)
			c.Class("with-failing-statements")
		}
		sc.cureRound = c.Src.Int("cure_round", 1, 12)
		sc.lateFault = c.Src.Pick("statement_that_keeps_failing_on_broken_hosts", "", "", "start_replica", "change_source", "stop_replica", "offline_on", "start-after-reset", "start-after-reset")
		if sc.lateFault != "" {
			c.Class("repair-statement-keeps-failing:" + sc.lateFault)
		}
		if needs {
			c.NonTrivial()
		}
		sig, msg := c10Run(c, t, sc)
		if sig != "" {
			c.Violation(sig, "%s\nscenario: %s", msg, sc)
		}
	})
}

// TestVerifC10Grid: every cell of a reduced product of initial states, once, without faults.
func TestVerifC10Grid(t *testing.T) {
	stt := vs.NewStats(t, "C10")
	stt.Assumptions = simAssumptions
	stt.Exhaustive = true
	repStates := []c10Node{
		{ro: 2, repl: "ok"}, {ro: 0, repl: "ok", ssMaster: true}, {ro: 2, repl: "from-other", offline: true}, {ro: 0, repl: "none"}, {ro: 1, repl: "none", ownTxns: 1, ssMaster: true},
		{ro: 2, repl: "both-stopped", ssSlave: true}, {ro: 2, repl: "sql-error"}, {ro: 0, repl: "from-decoy", ssSlave: true}, {ro: 2, repl: "io-stopped", offline: true},
	}
	masterStates := []c10Node{{ro: 0}, {ro: 2, offline: true}, {ro: 1, ssMaster: true, ssSlave: true}, {ro: 0, offline: true, ssMaster: true}}
	var grid []c10Scenario
	for _, semi := range []bool{false, true} {
		for _, ms := range masterStates {
			for _, a := range repStates {
				for _, b := range repStates {
					grid = append(grid, c10Scenario{n: 3, semi: semi, aggressive: true, maxAttempts: 1, master: ms, reps: []c10Node{a, b}, cureRound: 1000})
				}
			}
		}
	}
	stt.Rule = fmt.Sprintf("exhaustive reduced grid, no faults: 3 hosts, semi_sync {off,on} x %d master states x %d x %d replica states (aggressive repair, 1 attempt per method) = %d cells, each visited once; same oracles as the random check", len(masterStates), len(repStates), len(repStates), len(grid))
	var cells [][]vs.Draw
	for i := range grid {
		cells = append(cells, []vs.Draw{{L: "cell", V: i}})
	}
	stt.Enumerate(t, vs.CheckOpts{Bubble: true}, cells, func(c *vs.Case) {
		sc := grid[c.Src.Int("cell", 0, len(grid)-1)]
		c.NonTrivial()
		c.Sample(map[string]any{"scenario": sc.String()})
		if sig, msg := c10Run(c, t, sc); sig != "" {
			c.Violation(sig, "%s\nscenario: %s", msg, sc)
		}
	})
}
