//go:build verif

package app

import (
	"encoding/json"
	"fmt"
	"os"
	"strings"
	"testing"
	"time"

	vs "github.com/yandex/mysync/internal/verifsim"
)

func swID(sw *Switchover) string {
	return fmt.Sprintf("%s@%d", sw.InitiatedBy, sw.InitiatedAt.UnixNano())
}

// c06Log follows the three coordination keys and checks the life cycle of every request.
type c06Log struct {
	s        *sim
	next     int
	cur      *Switchover // content of the switch key (nil: absent)
	terminal map[string]string
	awaiting map[string]string // client -> request id whose switch key it deleted and must now record
	seen     map[string]bool
	attempts map[string]int
}

func newC06Log(s *sim) *c06Log {
	return &c06Log{s: s, next: s.zk.MutLen(), terminal: map[string]string{}, awaiting: map[string]string{}, seen: map[string]bool{}, attempts: map[string]int{}}
}

func (l *c06Log) process() (sig, msg string) {
	muts := l.s.zk.MutSnapshot()
	for ; l.next < len(muts); l.next++ {
		m := muts[l.next]
		key := strings.TrimPrefix(m.Path, simNS+"/")
		isWrite := m.Op == vs.OpCreate || m.Op == vs.OpSetData || m.Op == vs.OpRawSet
		isDelete := m.Op == vs.OpDelete || m.Op == vs.OpRawDelete
		switch key {
		case pathCurrentSwitch:
			if isWrite {
				var sw Switchover
				if json.Unmarshal(m.Data, &sw) != nil {
					continue
				}
				id := swID(&sw)
				if how, ok := l.terminal[id]; ok {
					return "c06-touched-after-terminal", fmt.Sprintf("request %s already ended (%s) but %s wrote the switch key for it again: %s", id, how, m.Client, m.Data)
				}
				if l.cur != nil && swID(l.cur) != id {
					return "c06-filed-over-pending", fmt.Sprintf("%s wrote request %s over the pending request %s", m.Client, id, swID(l.cur))
				}
				if l.cur != nil && m.Client != "raw" {
					isFail := sw.Result != nil && !sw.Result.Ok
					newFail := isFail && (l.cur.Result == nil || !sw.Result.FinishedAt.Equal(l.cur.Result.FinishedAt) || sw.Result.Error != l.cur.Result.Error)
					switch {
					case sw.RunCount == l.cur.RunCount+1:
						if !isFail {
							return "c06-run-count-changed", fmt.Sprintf("request %s: run_count went %d -> %d without a failed attempt being recorded", id, l.cur.RunCount, sw.RunCount)
						}
						l.attempts[id]++
					case sw.RunCount == l.cur.RunCount:
						if newFail {
							return "c06-attempt-not-counted", fmt.Sprintf("request %s: a failed attempt was recorded (%q) but run_count stayed %d", id, sw.Result.Error, sw.RunCount)
						}
					default:
						return "c06-run-count-changed", fmt.Sprintf("request %s: run_count went %d -> %d in one write", id, l.cur.RunCount, sw.RunCount)
					}
				}
				l.seen[id] = true
				c := sw
				l.cur = &c
			} else if isDelete && l.cur != nil {
				id := swID(l.cur)
				if m.Client == "raw" {
					l.terminal[id] = "aborted by the operator"
				} else {
					l.awaiting[m.Client] = id
				}
				l.cur = nil
			}
		case pathLastSwitch, pathLastRejectedSwitch:
			if !isWrite {
				continue
			}
			var sw Switchover
			if json.Unmarshal(m.Data, &sw) != nil {
				continue
			}
			id := swID(&sw)
			if how, ok := l.terminal[id]; ok {
				return "c06-two-terminal-outcomes", fmt.Sprintf("request %s already ended (%s) and is now also recorded in %s by %s", id, how, key, m.Client)
			}
			l.terminal[id] = "recorded in " + key
			if l.awaiting[m.Client] == id {
				delete(l.awaiting, m.Client)
			}
			if l.cur != nil && swID(l.cur) == id {
				return "c06-recorded-but-pending", fmt.Sprintf("request %s was recorded in %s while its switch key still exists", id, key)
			}
		}
	}
	return "", ""
}

var c06FaultClasses = []string{"set_ro", "stop_io", "gtid_executed", "change_source", "set_writable", "replica_status", "reset_replica_all", "start_replica"}

// TestVerifC06: every switch request reaches exactly one terminal outcome, in bounded time.
func TestVerifC06(t *testing.T) {
	stt := vs.NewStats(t, "C06")
	stt.Rule = "histories over converged semi-sync clusters of 2-3 HA hosts with switchover_max_attempts in {0,1,3,60} and switchover_timeout in {1m,30m}: 10-40 actions from {round of ticks, manager tick left in flight, operator request (to/from/failover), worker-written request (with or without master_transition / initiated_at), two initiators at once, an operator request slipping in between the manager's look at the switch key and its own filing of a failover, master crash (automatic failover) and restart, abort, abort+new request (also while an attempt is in flight), sticky MySQL-side fault making attempts fail / cleared, light maintenance on/leave, time advance 2s-31min}; ZooKeeper calls of the manager succeed; oracle over the ordered log of writes/deletes of switch, last_switch, last_rejected_switch (identity = initiated_by+initiated_at): no write over a pending request, exactly one terminal event, nothing touches a request afterwards, failed attempts counted by exactly one, plus per completed manager tick: a request older than the timeout or a planned one with run_count>=limit>0 is terminal at the end of the tick (outside light-maintenance parking), a retried request is not rejected without an attempt except for limit/timeout, a success record implies master key = the node made writable and it is writable; non-trivial = >=2 attempts, an abort, competing initiators, or a limit/timeout reached"
	stt.Assumptions = simAssumptions
	stt.Check(t, vs.CheckOpts{Bubble: true}, func(c *vs.Case) {
		n := c.Src.Int("ha_hosts", 2, 3)
		ha := []string{"h1", "h2", "h3"}[:n]
		limit := []int{0, 1, 3, 60}[c.Src.Int("max_attempts", 0, 3)]
		timeout := []time.Duration{time.Minute, 30 * time.Minute}[c.Src.Int("timeout", 0, 1)]
		o := simOpts{HA: ha, LogLevel: simLogLevel(), Cfg: map[string]string{
			"switchover_max_attempts": fmt.Sprint(limit), "switchover_timeout": timeout.String(),
			"failover": "true", "failover_delay": "0s", "inactivation_delay": "5s", "failover_cooldown": c.Src.Pick("cooldown", "0s", "60m"),
			"slave_catch_up_timeout": "20s", "db_set_ro_timeout": "6s", "db_set_ro_force_timeout": "6s"}}
		dir, _ := os.MkdirTemp("", "verifsim")
		defer os.RemoveAll(dir)
		s := newSim(c, c.RTOrT(t), dir, o)
		defer s.close()
		if !s.converge(40) {
			c.Violation("harness-no-convergence", "calibration: no convergence from a cold start")
		}
		s.traceFrom = s.w.StmtLen()
		log := newC06Log(s)
		var inflight []*tickRec
		sawAbort, sawCompete, sawLimit := false, false, false
		opN := 0

		checkTick := func(r *tickRec) {
			if r == nil || !r.done {
				return
			}
			isMgr := r.stateBefore == stateManager && r.lockBefore == r.p.id && r.lockAfter == r.p.id && r.stateAfter == stateManager
			sw := r.switchBefore
			if !isMgr || sw == nil {
				return
			}
			if r.maintBefore != nil {
				// the bound is stated for a manager running outside maintenance: full maintenance
				// pauses everything, light maintenance parks failover-type requests, and an
				// iteration that begins under a maintenance record may be spent leaving it
				return
			}
			for _, m := range s.zk.MutSnapshot()[r.mut0:r.mut1] {
				if m.Path == simNS+"/"+pathMaintenance {
					return // a maintenance request arrived while the iteration ran: it may have seen it
				}
			}
			id := swID(sw)
			after := s.currentSwitch()
			stillPending := after != nil && swID(after) == id
			timedOut := !sw.InitiatedAt.IsZero() && r.t0.Sub(sw.InitiatedAt) > timeout
			overLimit := sw.MasterTransition != FailoverTransition && limit > 0 && sw.RunCount >= limit
			if timedOut || overLimit {
				sawLimit = true
			}
			if (timedOut || overLimit) && stillPending {
				why := fmt.Sprintf("run_count %d >= switchover_max_attempts %d", sw.RunCount, limit)
				sig := "c06-over-limit-still-pending"
				if timedOut {
					why = fmt.Sprintf("filed %v ago, switchover_timeout %v", r.t0.Sub(sw.InitiatedAt), timeout)
					sig = "c06-timed-out-still-pending"
				}
				s.dumpTrace(r.stmt0)
				c.Violation(sig, "manager %s began an iteration at %s with request %s pending (%s) and it is still pending when the iteration ends: %+v", r.p.id, r.t0.Format("15:04:05"), id, why, *after)
			}
			stmts := s.w.StmtsSince(r.stmt0)
			froze := false
			var lastWritable string
			for _, st := range stmts {
				if st.Seq > 0 && st.Issuer == r.p.id && st.At.Before(r.t1.Add(time.Nanosecond)) {
					if st.Class == "set_ro" || st.Class == "stop_io" || st.Class == "offline_on" {
						froze = true
					}
					if st.Class == "set_writable" && st.Outcome == "ok" {
						lastWritable = st.Target
					}
				}
			}
			// an attempt is also one that was started (StartSwitchover rewrote the request) and gave up
			// before its first statement, e.g. because the old master of a planned switchover does
			// not answer: the procedure itself rejects then, which is not a re-judgement
			for _, m := range s.zk.MutSnapshot()[r.mut0:r.mut1] {
				var cur Switchover
				if m.Client == r.p.id && m.Path == simNS+"/"+pathCurrentSwitch && m.Op == vs.OpSetData && json.Unmarshal(m.Data, &cur) == nil && swID(&cur) == id &&
					!cur.StartedAt.IsZero() && !cur.StartedAt.Before(r.t0) {
					froze = true
				}
			}
			for _, m := range s.zk.MutSnapshot()[r.mut0:r.mut1] {
				key := strings.TrimPrefix(m.Path, simNS+"/")
				if m.Client != r.p.id || (m.Op != vs.OpCreate && m.Op != vs.OpSetData) {
					continue
				}
				var rec Switchover
				if (key != pathLastRejectedSwitch && key != pathLastSwitch) || json.Unmarshal(m.Data, &rec) != nil || swID(&rec) != id {
					continue
				}
				// (the rejection is judged at the instant it was decided, which may be later than
				// the start of the iteration)
				lateTimeout := rec.Result != nil && !sw.InitiatedAt.IsZero() && rec.Result.FinishedAt.Sub(sw.InitiatedAt) > timeout
				if key == pathLastRejectedSwitch && sw.RunCount > 0 && !froze && !timedOut && !lateTimeout && !overLimit {
					c.Violation("c06-rejudged-on-retry", "request %s had already been approved (run_count %d) and was rejected by %s in an iteration that made no attempt: %s", id, sw.RunCount, r.p.id, rec.Result.Error)
				}
				if key == pathLastSwitch && rec.Result != nil && rec.Result.Ok {
					mk := s.masterKey()
					s.w.Lock()
					mh := s.w.Hosts[mk]
					ok := mh != nil && mh.Up && !mh.RO
					s.w.Unlock()
					if !ok || (lastWritable != "" && lastWritable != mk) {
						s.dumpTrace(r.stmt0)
						c.Violation("c06-success-without-master", "request %s recorded as succeeded by %s, but the recorded master is %q (writable=%v) and the node made writable in that iteration is %q", id, r.p.id, mk, ok, lastWritable)
					}
				}
			}
		}
		pollAll := func() {
			var keep []*tickRec
			for _, r := range inflight {
				if s.poll(r) {
					checkTick(r)
				} else {
					keep = append(keep, r)
				}
			}
			inflight = keep
			if sig, msg := log.process(); sig != "" {
				s.dumpTrace(s.traceFrom)
				c.Violation(sig, "%s", msg)
			}
			s.raise()
		}
		file := func(kind string) bool {
			opN++
			master := s.masterKey()
			var other string
			for _, h := range ha {
				if h != master {
					other = h
				}
			}
			by := fmt.Sprintf("op%d", opN)
			switch kind {
			case "to":
				return s.opSwitch("", other, false, by)
			case "from":
				return s.opSwitch(master, "", false, by)
			case "failover":
				return s.opSwitch(master, "", true, by)
			case "worker-full":
				if _, ok := s.zkGet(pathCurrentSwitch); ok {
					return false
				}
				b, _ := json.Marshal(map[string]any{"from": master, "to": "", "cause": CauseWorker, "initiated_by": by, "initiated_at": time.Now(), "master_transition": "switchover"})
				s.zk.RawSet(simNS+"/"+pathCurrentSwitch, b)
				return true
			case "worker-bare":
				if _, ok := s.zkGet(pathCurrentSwitch); ok {
					return false
				}
				b, _ := json.Marshal(map[string]any{"from": "", "to": other, "cause": CauseWorker, "initiated_by": by, "initiated_at": time.Now()})
				s.zk.RawSet(simNS+"/"+pathCurrentSwitch, b)
				return true
			}
			return false
		}

		steps := c.Src.Int("steps", 10, 40)
		for i := 0; i < steps; i++ {
			act := c.Src.Pick("action", "round", "round", "round", "manager-tick-inflight", "file", "file", "compete", "crash-master", "start-hosts",
				"abort", "abort+refile", "fault-on", "fault-off", "light-maint", "leave-maint", "advance", "grind", "race-the-filing")
			switch act {
			case "round":
				for _, p := range s.alive() {
					s.run(p, "health")
				}
				for _, p := range s.alive() {
					if r := s.beginTick(p); r != nil {
						s.finishTick(r)
						checkTick(r)
					}
					pollAll()
				}
				s.advance(2 * time.Second)
			case "grind":
				// attempts failing for long: manager iterations at intervals shorter than the
				// timeout, together spanning more than it
				gap := []time.Duration{5 * time.Second, 20 * time.Second, 50 * time.Second}[c.Src.Int("grind.gap", 0, 2)]
				for k, kn := 0, c.Src.Int("grind.rounds", 2, 6); k < kn; k++ {
					for _, p := range s.alive() {
						s.run(p, "health")
					}
					for _, p := range s.alive() {
						if r := s.beginTick(p); r != nil {
							s.finishTick(r)
							checkTick(r)
						}
						pollAll()
					}
					s.advance(gap)
				}
			case "manager-tick-inflight":
				if m := s.manager(); m != nil {
					if r := s.beginTick(m); r != nil {
						if r.done {
							checkTick(r)
						} else {
							inflight = append(inflight, r)
							c.Class("attempt-left-in-flight")
						}
					}
				}
			case "file":
				file(c.Src.Pick("request", "to", "from", "failover", "worker-full", "worker-bare"))
			case "compete":
				a := file(c.Src.Pick("request", "to", "from", "failover", "worker-full", "worker-bare"))
				b := file(c.Src.Pick("request2", "to", "from", "failover"))
				if a && b {
					c.Violation("harness-operator-model", "operator model filed two requests")
				}
				sawCompete = true
			case "crash-master":
				s.crashMySQL(s.masterKey())
			case "race-the-filing":
				// another initiator gets its request in between the manager's look at the switch key
				// and the manager's own filing of a failover: armed here, fires at the manager's next
				// write of a NEW request (the CLI's create-if-absent happens first), then the master dies
				armed := true
				reads, tickNo := 0, -1
				s.zk.Intercept = func(r *vs.ZKReq) vs.ZKAction {
					if !armed || r.Client == "raw" || r.Path != simNS+"/"+pathCurrentSwitch {
						return vs.ZKProceed
					}
					if _, pending := s.zkGet(pathCurrentSwitch); pending {
						return vs.ZKProceed
					}
					fire := false
					switch r.Op {
					case vs.OpGetData:
						// the second look at the absent key within one iteration is the one inside a
						// read-then-write filing (the first is the iteration's "is anything pending?")
						for _, p := range s.all {
							if p.id == r.Client {
								if p.ticks != tickNo {
									tickNo, reads = p.ticks, 0
								}
								reads++
								fire = reads == 2
							}
						}
					case vs.OpCreate, vs.OpSetData:
						fire = strings.Contains(string(r.Data), `"`+string(CauseAuto)+`"`)
					}
					if fire {
						armed = false
						file("to")
						sawCompete = true
						c.Class("operator-request-slipped-in-before-the-manager's-filing")
					}
					return vs.ZKProceed
				}
				s.crashMySQL(s.masterKey())
			case "start-hosts":
				for _, h := range s.hostNames() {
					s.w.Lock()
					up := s.w.Hosts[h].Up
					s.w.Unlock()
					if !up {
						s.startMySQL(h, true)
					}
				}
			case "abort":
				if _, ok := s.zkGet(pathCurrentSwitch); ok {
					s.opAbort()
					sawAbort = true
				}
			case "abort+refile":
				if _, ok := s.zkGet(pathCurrentSwitch); ok {
					s.opAbort()
					sawAbort = true
					if len(inflight) > 0 {
						c.Class("abort+refile-during-attempt")
					}
					file(c.Src.Pick("request", "to", "from", "failover"))
				}
			case "fault-on":
				s.w.AddFault(&vs.Fault{Target: ha[c.Src.Int("fault.target", 0, n-1)], Class: c06FaultClasses[c.Src.Int("fault.class", 0, len(c06FaultClasses)-1)],
					Nth: 1, Sticky: true, Kind: "err", Code: []uint16{1205, 1105}[c.Src.Int("fault.code", 0, 1)]})
			case "fault-off":
				s.w.ClearFaults()
			case "light-maint":
				s.opMaintenance(LightMode)
			case "leave-maint":
				s.opLeaveMaintenance()
			case "advance":
				s.advance([]time.Duration{2 * time.Second, 20 * time.Second, 61 * time.Second, 31 * time.Minute}[c.Src.Int("advance", 0, 3)])
			}
			pollAll()
		}
		for _, r := range inflight {
			s.finishTick(r)
			checkTick(r)
		}
		pollAll()
		if u := s.unknownStatements(); len(u) > 0 {
			c.Violation("harness-unknown-statement", "calibration: fake MySQL did not recognise %v", u)
		}
		if len(s.panics) > 0 {
			c.Class("panic-in-daemon(C20)")
			return
		}
		multi := false
		for _, k := range log.attempts {
			if k >= 2 {
				multi = true
			}
		}
		if multi {
			c.Class("two-or-more-attempts")
		}
		if sawAbort {
			c.Class("abort")
		}
		if sawCompete {
			c.Class("competing-initiators")
		}
		if sawLimit {
			c.Class("limit-or-timeout-reached")
		}
		c.Class(fmt.Sprintf("requests:%d", min(len(log.seen), 4)))
		if multi || sawAbort || sawCompete || sawLimit {
			c.NonTrivial()
		}
	})
}
