//go:build verif

package app

import (
	"encoding/json"
	"fmt"
	"os"
	"os/exec"
	"path/filepath"
	"regexp"
	"sort"
	"strings"
	"sync"
	"testing"
	"time"

	vs "github.com/yandex/mysync/internal/verifsim"
)

type c20RaceParams struct {
	Hosts      int   `json:"hosts"`
	Cascade    bool  `json:"cascade"`
	Iterations int   `json:"iterations"`
	Marked     bool  `json:"marked"`
	Disturb    []int `json:"disturb"`
	MgrSwitch  bool  `json:"manager_switchover"`
}

// rtBody runs one loop body in real time (no bubble), recovering panics.
func (s *sim) rtBody(p *simProc, kind string) {
	defer func() {
		if r := recover(); r != nil {
			s.recordPanic(p, kind, r)
		}
	}()
	s.body(p, kind)()
}

// TestVerifC20RaceChild is the workload: every process runs its four loops concurrently, as the
// real daemon does. It only does something when started by TestVerifC20Race in a child process
// built with the race detector (reports go to the files named by GORACE=log_path).
func TestVerifC20RaceChild(t *testing.T) {
	raw := os.Getenv("VERIF_RACE_CHILD")
	if raw == "" {
		t.Skip("child of TestVerifC20Race only")
	}
	var prm c20RaceParams
	if err := json.Unmarshal([]byte(raw), &prm); err != nil {
		t.Fatal(err)
	}
	ha := []string{"h1", "h2", "h3"}[:prm.Hosts]
	o := simOpts{HA: ha, Cfg: map[string]string{"manager_switchover": fmt.Sprint(prm.MgrSwitch), "failover_cooldown": "0s"}}
	if prm.Cascade {
		o.Cascade = map[string]string{"c1": ha[len(ha)-1]}
	}
	o.LogLevel = 7 // zerolog.Disabled
	dir, _ := os.MkdirTemp("", "verifrace")
	defer os.RemoveAll(dir)
	stt := vs.NewStats(t, "C20")
	c := stt.PlainCase()
	s := newSim(c, t, dir, o)
	// sequential warm-up to a converged cluster (real time)
	for i := 0; i < 60 && !s.converged(); i++ {
		for _, p := range s.alive() {
			s.rtBody(p, "health")
		}
		for _, p := range s.alive() {
			s.rtBody(p, "tick")
			s.rtBody(p, "recovery")
		}
		time.Sleep(2 * time.Millisecond)
	}
	markAll := func() {
		// every host marked: each process's recovery check goes all the way (also the manager's own)
		for _, h := range s.hostNames() {
			s.zk.RawSet(simNS+"/"+pathRecovery+"/"+h, []byte("null"))
		}
	}
	if prm.Marked {
		markAll()
	}
	var wg sync.WaitGroup
	for _, p := range s.alive() {
		for _, kind := range []string{"tick", "health", "recovery", "lagcheck"} {
			wg.Add(1)
			go func(p *simProc, kind string) {
				defer wg.Done()
				for i := 0; i < prm.Iterations; i++ {
					s.rtBody(p, kind)
					time.Sleep(time.Millisecond)
				}
			}(p, kind)
		}
	}
	wg.Add(1)
	go func() {
		defer wg.Done()
		for _, d := range prm.Disturb {
			time.Sleep(15 * time.Millisecond)
			victim := ha[len(ha)-1]
			switch d {
			case 0:
				s.w.ClientWrite(s.masterKey(), 200)
			case 1:
				s.crashMySQL(victim)
			case 2:
				s.w.Lock()
				up := s.w.Hosts[victim].Up
				s.w.Unlock()
				if !up {
					s.w.Start(victim)
				}
			case 3:
				s.opSwitch("", ha[1], false, "operator")
			case 4:
				s.zk.RawDelete(simNS + "/" + pathHANodes + "/" + victim)
			case 5:
				s.zk.RawSet(simNS+"/"+pathHANodes+"/"+victim, []byte(`{"priority":0}`))
			case 6:
				markAll()
			}
		}
	}()
	wg.Wait()
	// panics recovered around loop bodies (each would have terminated the daemon) go to the parent
	for _, p := range s.panics {
		fmt.Printf("CHILD-PANIC %s|%s|%s|%s\n%s\nCHILD-PANIC-END\n", c20Site(p.Stack), p.Proc, p.Step, p.Value, firstLines(p.Stack, 30))
	}
	if os.Getenv("VERIF_DEBUG") != "" {
		fmt.Printf("child: %d statements, %d zk mutations, %d recovered panics, master %q, converged %v, marks %v\n", s.w.StmtLen(), s.zk.MutLen(), len(s.panics), s.masterKey(), s.converged(), s.markedHosts())
		fmt.Printf("child: %s", s.describe())
		for _, p := range s.panics {
			fmt.Printf("child panic in %s/%s: %s\n%s\n", p.Proc, p.Step, p.Value, firstLines(p.Stack, 30))
		}
	}
	s.zk.Stop()
	s.w.Stop()
}

var raceFrame = regexp.MustCompile(`^  (\S+)\(\)\s*$`)

// raceSig: the innermost function of each of the two access stacks of one report.
func raceSig(block string) (sig string, harnessOnly bool) {
	var tops []string
	lines := strings.Split(block, "\n")
	for i, l := range lines {
		if (strings.Contains(l, " at 0x") && strings.Contains(l, "by ")) && i+1 < len(lines) {
			// first frame outside the runtime of this stack
			for j := i + 1; j < len(lines) && strings.HasPrefix(lines[j], "  "); j += 2 {
				m := raceFrame.FindStringSubmatch(lines[j])
				if m == nil {
					break
				}
				if strings.HasPrefix(m[1], "runtime.") || strings.HasPrefix(m[1], "sync.") || strings.HasPrefix(m[1], "sync/atomic.") {
					continue
				}
				f := m[1]
				if k := strings.LastIndex(f, "/"); k >= 0 {
					f = f[k+1:]
				}
				tops = append(tops, f)
				break
			}
		}
	}
	if len(tops) > 2 {
		tops = tops[:2]
	}
	sort.Strings(tops)
	harnessOnly = len(tops) > 0
	for _, f := range tops {
		if !strings.HasPrefix(f, "verifsim.") && !strings.Contains(f, "(*sim)") && !strings.Contains(f, "TestVerif") && !strings.Contains(f, "tracingDCS") {
			harnessOnly = false
		}
	}
	return strings.Join(tops, "|"), harnessOnly
}

// TestVerifC20Race: the concurrently running loops of one process do not race on shared memory.
func TestVerifC20Race(t *testing.T) {
	stt := vs.NewStats(t, "C20")
	stt.Rule = "for each generated workload (2-3 HA hosts, optional cascade replica, a host marked for recovery or not, manager_switchover on/off, 10-40 iterations, 0-8 disturbances from {client write, replica crash, replica start, switch request, host unregistered, host registered, every host marked for recovery}) a child process built with the race detector runs, in real time and on 4 OS threads, the four loops (manager iteration, health report, recovery check, lag check) of every mysync process concurrently against the fake servers; oracle: the race detector's report files; a report whose accesses are both in harness code is a harness failure (inconclusive), any other report is a violation identified by the two innermost functions; non-trivial = every workload (all run concurrent loops)"
	stt.Assumptions = []string{"interleavings are those the Go scheduler produced in the runs made; the race detector reports a race when both unsynchronised accesses occur in one run, whatever their timing"}
	stt.Check(t, vs.CheckOpts{}, func(c *vs.Case) {
		prm := c20RaceParams{Hosts: []int{2, 3, 3}[c.Src.Int("hosts", 0, 2)], Cascade: c.Src.Bool("cascade"), Iterations: c.Src.Int("iterations", 10, 40), Marked: c.Src.Int("marked_host", 0, 2) != 0, MgrSwitch: c.Src.Bool("manager_switchover")}
		nd := c.Src.Int("disturbances", 0, 8)
		for i := 0; i < nd; i++ {
			prm.Disturb = append(prm.Disturb, c.Src.Int("disturbance", 0, 6))
		}
		c.NonTrivial()
		c.Sample(prm)
		b, _ := json.Marshal(prm)
		dir, _ := os.MkdirTemp("", "verifrace")
		defer os.RemoveAll(dir)
		var reports []string
		lastOut := ""
		for attempt := 0; attempt < 2 && len(reports) == 0; attempt++ {
			cmd := exec.Command(os.Args[0], "-test.run=^TestVerifC20RaceChild$", "-test.count=1", "-test.timeout=170s")
			cmd.Env = append(os.Environ(), "VERIF_RACE_CHILD="+string(b), "GORACE=log_path="+filepath.Join(dir, "race")+" halt_on_error=0 exitcode=0", "GOMAXPROCS=4", "VERIF_OUT="+filepath.Join(dir, "childstats"))
			out, err := cmd.CombinedOutput()
			lastOut = string(out)
			if os.Getenv("VERIF_DEBUG") != "" {
				fmt.Printf("---- child output (err=%v)\n%s\n----\n", err, out)
			}
			files, _ := filepath.Glob(filepath.Join(dir, "race.*"))
			for _, f := range files {
				data, _ := os.ReadFile(f)
				for _, blk := range strings.Split(string(data), "==================") {
					if strings.Contains(blk, "WARNING: DATA RACE") {
						reports = append(reports, blk)
					}
				}
				os.Remove(f)
			}
			if err != nil && len(reports) == 0 && !strings.Contains(string(out), "race detected") {
				if i := strings.Index(string(out), "panic: "); i >= 0 && !strings.Contains(string(out), "test timed out") {
					// the daemon's code killed the process (a panic outside any recoverable loop body,
					// e.g. in a goroutine it spawned): that is a C20 violation, not a harness problem
					site := c20Site(string(out)[i:])
					for _, d := range prm.Disturb {
						if (d == 4 || d == 5) && strings.Contains(string(out)[i:], "nil pointer dereference") {
							site = "host-registry-refreshed-under-a-running-manager-iteration"
						}
					}
					suffix := "(process-death)"
					if site == "host-registry-refreshed-under-a-running-manager-iteration" {
						suffix = "" // one root cause, whether the nil handle is met in a loop body or in a spawned goroutine
					}
					c.Violation("c20-panic@"+site+suffix, "the workload's process died: %s", firstLines(string(out)[i:], 40))
				}
				c.Violation("harness-race-child-failed", "calibration: child failed: %v\n%s", err, firstLines(string(out), 60))
			}
			if os.Getenv("VERIF_REPLAY") == "" {
				break // a second attempt only when replaying a saved workload
			}
		}
		if i := strings.Index(lastOut, "CHILD-PANIC "); i >= 0 {
			line := lastOut[i+len("CHILD-PANIC "):]
			site := strings.SplitN(line, "|", 2)[0]
			j := strings.Index(line, "CHILD-PANIC-END")
			if j < 0 {
				j = len(line)
			}
			edits := false
			for _, d := range prm.Disturb {
				edits = edits || d == 4 || d == 5
			}
			if edits && strings.Contains(line[:j], "nil pointer dereference") {
				// one root cause, many sites (known finding): a host name captured earlier in the manager
				// iteration no longer resolves because another loop of the same process (the recovery
				// check of a marked host) refreshed the registry meanwhile
				site = "host-registry-refreshed-under-a-running-manager-iteration"
			}
			c.Violation("c20-panic@"+site, "a loop body of the concurrent workload panicked (the daemon would terminate): %s", line[:j])
		}
		for _, r := range reports {
			sig, harness := raceSig(r)
			if harness {
				c.Violation("harness-race-in-harness-code", "calibration: the race detector reports a race inside the harness: %s\n%s", sig, firstLines(r, 60))
			}
		}
		for _, r := range reports {
			sig, _ := raceSig(r)
			c.Violation("c20-race@"+sig, "the race detector reports unsynchronised concurrent accesses (%s):\n%s", sig, firstLines(r, 70))
		}
	})
}
