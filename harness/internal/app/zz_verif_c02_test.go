//go:build verif

package app

import (
	"fmt"
	"os"
	"sort"
	"strings"
	"testing"
	"time"

	"github.com/rs/zerolog"

	vs "github.com/yandex/mysync/internal/verifsim"
)

func simLogLevel() zerolog.Level {
	if os.Getenv("VERIF_DEBUG") != "" || os.Getenv("VERIF_REPLAY") != "" {
		return zerolog.InfoLevel
	}
	return zerolog.Disabled
}

// ackers: hosts that would acknowledge a client write right now.
func (s *sim) ackersLocked() []string {
	var a []string
	for _, n := range s.hostNames() {
		if s.w.CanAck(s.w.Hosts[n]) {
			a = append(a, n)
		}
	}
	return a
}

// installSingleAckerMonitor: C02 "no second node acknowledges client writes" evaluated
// after every statement that reaches a fake server (ground truth at that instant).
func (s *sim) installSingleAckerMonitor() {
	s.w.AfterStmt = func(w *vs.MyWorld, st *vs.Stmt, h *vs.MyHost) {
		if !st.Mutating || !s.ackerWindow {
			return
		}
		if a := s.ackersLocked(); len(a) > 1 {
			s.report("c02-two-ackers", "after %s->%s %q two hosts would acknowledge client writes: %v", st.Issuer, st.Target, st.Query, a)
		}
	}
}

// endStateOracle: C02/C07 end state after healing.
func (s *sim) endStateOracle(prefix string) (sig, msg string) {
	s.w.Lock()
	defer s.w.Unlock()
	s.w.SettleLocked()
	m := s.masterKey()
	var writable []string
	for _, n := range s.hostNames() {
		if h := s.w.Hosts[n]; h.Up && !h.RO {
			writable = append(writable, n)
		}
	}
	if len(writable) != 1 || writable[0] != m {
		return prefix + "-writable-set", fmt.Sprintf("writable hosts %v, recorded master %q: want exactly the recorded master", writable, m)
	}
	mh := s.w.Hosts[m]
	// (offline mode of the master is not part of C02/C07: a master marked for recovery is
	// deliberately kept offline, see C17)
	for _, n := range s.opts.HA {
		if n == m {
			continue
		}
		h := s.w.Hosts[n]
		if !h.Up {
			continue
		}
		if !h.RO {
			return prefix + "-replica-writable", fmt.Sprintf("HA host %s is not read-only", n)
		}
		ch := h.Chan
		if ch == nil || ch.Source != m || !ch.IODesired || !ch.IOConnected || !ch.SQLDesired {
			return prefix + "-replica-not-following", fmt.Sprintf("HA host %s does not replicate from master %s: channel %+v", n, m, ch)
		}
	}
	for _, wr := range s.w.Writes {
		if s.excuseWritesOn != nil && s.excuseWritesOn[wr.Host] {
			continue
		}
		if wr.Outcome == vs.WAcked && !mh.Executed.Has(vs.RefKey(wr.Txn.UUID, ""), wr.Txn.Gno) {
			return prefix + "-acked-write-lost", fmt.Sprintf("write #%d acknowledged by %s at %s (%s:%d) is missing on master %s (executed %s)",
				wr.ID, wr.Host, wr.At.Format("15:04:05"), wr.Txn.UUID, wr.Txn.Gno, m, vs.GText(mh.Executed))
		}
	}
	return "", ""
}

func (s *sim) describe() string {
	s.w.Lock()
	defer s.w.Unlock()
	var sb strings.Builder
	for _, n := range s.hostNames() {
		h := s.w.Hosts[n]
		fmt.Fprintf(&sb, "%s up=%v ro=%v sro=%v off=%v ssm=%v sss=%v w=%d exec=%s pend=%d", n, h.Up, h.RO, h.SRO, h.Offline, h.SSMaster, h.SSSlave, h.SSWait, strings.ReplaceAll(vs.GText(h.Executed), "\n", ""), len(h.Pending))
		if ch := h.Chan; ch != nil {
			fmt.Fprintf(&sb, " chan{src=%s io=%v/%v sql=%v semi=%v ioerr=%d sqlerr=%d relay=%d}", ch.Source, ch.IODesired, ch.IOConnected, ch.SQLDesired, ch.IOSemi, ch.LastIOErrno, ch.LastSQLErrno, len(ch.Relay))
		}
		sb.WriteString("\n")
	}
	fmt.Fprintf(&sb, "master=%q active=%v\n", s.masterKey(), s.activeNodes())
	for _, p := range s.all {
		fmt.Fprintf(&sb, "proc %s dead=%v state=%s\n", p.id, p.dead, p.app.state)
	}
	return sb.String()
}

func (s *sim) dumpTrace(from int) {
	var t0 time.Time
	for i, st := range s.w.StmtsSince(from) {
		if i == 0 {
			t0 = st.At
		}
		if st.Mutating || st.Outcome != "ok" {
			s.c.Tracef("%s %s->%s [%s] %s => %s", st.At.Format("15:04:05.000"), st.Issuer, st.Target, st.Class, st.Query, st.Outcome)
		}
	}
	for _, m := range s.zk.MutSnapshot() {
		if m.At.Before(t0) {
			continue
		}
		if strings.HasPrefix(m.Path, simNS+"/health") || strings.HasPrefix(m.Path, simNS+"/resetup_status") || strings.HasPrefix(m.Path, simNS+"/timing") {
			continue
		}
		s.c.Tracef("%s zk %s %s %s by %s: %s", m.At.Format("15:04:05.000"), vs.OpName(m.Op), m.Path, "", m.Client, string(m.Data))
	}
	if os.Getenv("VERIF_REPLAY") != "" {
		for _, p := range s.all {
			for _, l := range strings.Split(p.logs.String(), "\n") {
				if l != "" {
					s.c.Tracef("LOG %s %s", p.id, l)
				}
			}
		}
	}
}

// randomSteps runs k loop bodies of random live processes (without waiting for blocked ones).
func (s *sim) randomSteps(k int, label string) {
	for i := 0; i < k; i++ {
		ps := s.alive()
		if len(ps) == 0 {
			return
		}
		p := ps[s.c.Src.Int(label+".proc", 0, len(ps)-1)]
		kind := s.c.Src.Pick(label+".kind", "tick", "tick", "health", "recovery")
		s.start(p, kind)
		s.raise()
	}
}

func (s *sim) write(label string) {
	names := s.hostNames()
	h := names[s.c.Src.Int(label+".host", 0, len(names)-1)]
	s.w.ClientWrite(h, 200)
	s.raise()
}

type c02Shape struct {
	n         int
	cascade   bool
	wait      int
	failover  bool
	mfirst    bool
	fdelay    string
	inact     string
	opts      simOpts
	hostNames []string
}

func genC02Shape(c *vs.Case) c02Shape {
	sh := c02Shape{n: c.Src.Int("ha_hosts", 2, 4), cascade: c.Src.Int("cascade", 0, 3) == 0, wait: c.Src.Int("wait_count", 1, 2),
		failover: c.Src.Int("failover", 0, 3) != 0, mfirst: c.Src.Bool("master_first_order"),
		fdelay: c.Src.Pick("failover_delay", "0s", "10s", "30s"), inact: c.Src.Pick("inactivation_delay", "5s", "30s")}
	ha := []string{"h1", "h2", "h3", "h4"}[:sh.n]
	o := simOpts{HA: ha, LogLevel: simLogLevel(), Cfg: map[string]string{
		"rpl_semi_sync_master_wait_for_slave_count": fmt.Sprint(sh.wait),
		"failover":                     fmt.Sprint(sh.failover),
		"master_first_adjust_ss_order": fmt.Sprint(sh.mfirst),
		"failover_delay":               sh.fdelay,
		"inactivation_delay":           sh.inact,
	}}
	if sh.cascade {
		o.Cascade = map[string]string{"c1": ha[c.Src.Int("cascade_source", 0, sh.n-1)]}
	}
	sh.opts = o
	return sh
}

// TestVerifC02: converged semi-sync cluster, one failure or switch request, healing, then
// exactly one writable recorded master, replicas following, no acknowledged write lost,
// and never two hosts able to acknowledge writes.
func TestVerifC02(t *testing.T) {
	st := vs.NewStats(t, "C02")
	st.Rule = "semi-sync clusters of 2-4 HA hosts (+0-1 cascade), wait count 1-2, failover on/off, both adjustment orders, failover_delay 0/10/30s, inactivation_delay 5/30s are converged from a cold start by the real daemons; a client workload writes at random hosts throughout; exactly one event (crash or isolation of master/replica, kill of the manager's or a candidate's mysync, ZooKeeper cut of one host, ZooKeeper down, switch --to / --from) is injected at a drawn point of the tick/health cycle for a drawn duration (1s/10s/45s/120s) while random loop bodies run; then healing, external resetup tool, quiescence over 90 virtual minutes; oracles: (i) after every mutating statement at most one host would acknowledge a client write, (ii) end state = exactly one writable host = recorded master, every reachable HA host read-only and replicating from it, every acknowledged write in its executed set; non-trivial = the master changed, or a write was pending/unknown, or a daemon went through the lost state"
	st.Assumptions = simAssumptions
	st.Check(t, vs.CheckOpts{Bubble: true}, func(c *vs.Case) {
		sh := genC02Shape(c)
		dir, _ := os.MkdirTemp("", "verifsim")
		defer os.RemoveAll(dir)
		s := newSim(c, c.RTOrT(t), dir, sh.opts)
		defer s.close()
		if !s.converge(40) {
			c.Class("calibration-no-convergence")
			s.dumpTrace(0)
			c.Violation("harness-no-convergence", "calibration: cluster %+v did not converge from a cold start\n%s", sh, s.describe())
		}
		s.installSingleAckerMonitor()
		master0 := s.masterKey()
		// replication speed knobs: a slow applier leaves received-but-unapplied tails, a slow
		// download leaves commits waiting for their acknowledgement
		for _, n := range s.hostNames() {
			if n == master0 {
				continue
			}
			h := s.w.Hosts[n]
			h.ApplyDelay = []time.Duration{0, 0, 2 * time.Second, 8 * time.Second}[c.Src.Int("apply_delay."+n, 0, 3)]
			h.DownloadRate = []float64{0, 0, 0, 150}[c.Src.Int("download_rate."+n, 0, 3)]
		}
		traceFrom := s.w.StmtLen()
		s.traceFrom = traceFrom
		for i := 0; i < 3; i++ {
			s.write("pre")
		}
		s.randomSteps(c.Src.Int("pre_steps", 0, 6), "pre")
		replicas := []string{}
		for _, h := range s.opts.HA {
			if h != master0 {
				replicas = append(replicas, h)
			}
		}
		sort.Strings(replicas)
		ev := c.Src.Pick("event", "crash-master", "crash-replica", "isolate-master", "isolate-replica", "kill-manager-mysync", "kill-candidate-mysync",
			"zk-cut-master", "zk-cut-replica", "zk-down", "switch-to", "switch-from")
		c.Class("event:" + ev)
		rep := replicas[c.Src.Int("replica", 0, len(replicas)-1)]
		// the statement's clause is "while the fault lasts": the monitor is armed from the
		// injection to the healing (for a switch request: until the end of the case)
		s.ackerWindow = true
		for i, k := 0, c.Src.Int("burst", 0, 3); i < k; i++ { // writes right before the event
			s.w.ClientWrite(master0, 200)
		}
		var heal func()
		switch ev {
		case "crash-master":
			s.crashMySQL(master0)
			heal = func() { s.startMySQL(master0, true) }
		case "crash-replica":
			s.crashMySQL(rep)
			heal = func() { s.startMySQL(rep, true) }
		case "isolate-master", "isolate-replica":
			h := master0
			if ev == "isolate-replica" {
				h = rep
			}
			s.w.Isolate(h, true)
			if p := s.procs[h]; p != nil {
				l := s.zk.Link(p.id)
				l.Set(func(l *vs.ZKLink) { l.Refuse = true })
				l.Sever()
			}
			heal = func() {
				s.w.Isolate(h, false)
				if p := s.procs[h]; p != nil {
					s.zk.Link(p.id).Set(func(l *vs.ZKLink) { l.Refuse = false })
				}
			}
		case "kill-manager-mysync", "kill-candidate-mysync":
			p := s.manager()
			if ev == "kill-candidate-mysync" || p == nil {
				for _, q := range s.alive() {
					if q != s.manager() {
						p = q
						break
					}
				}
			}
			host := p.host
			s.killProc(p)
			heal = func() { s.startProc(host) }
		case "zk-cut-master", "zk-cut-replica":
			h := master0
			if ev == "zk-cut-replica" {
				h = rep
			}
			p := s.procs[h]
			l := s.zk.Link(p.id)
			l.Set(func(l *vs.ZKLink) { l.Refuse = true })
			l.Sever()
			heal = func() { l.Set(func(l *vs.ZKLink) { l.Refuse = false }) }
		case "zk-down":
			s.zk.SetDown(true)
			heal = func() { s.zk.SetDown(false) }
		case "switch-to":
			s.opSwitch("", rep, false, "operator")
			heal = func() {}
		case "switch-from":
			s.opSwitch(master0, "", false, "operator")
			heal = func() {}
		}
		dur := []time.Duration{time.Second, 10 * time.Second, 45 * time.Second, 120 * time.Second}[c.Src.Int("duration", 0, 3)]
		c.Class(fmt.Sprintf("duration:%v", dur))
		end := time.Now().Add(dur)
		for time.Now().Before(end) {
			s.randomSteps(c.Src.Int("steps", 1, 4), "during")
			if c.Src.Int("write?", 0, 2) == 0 {
				s.write("during")
			}
			s.advance([]time.Duration{200 * time.Millisecond, time.Second, 2 * time.Second, 5 * time.Second}[c.Src.Int("dt", 0, 3)])
			s.raise()
		}
		heal()
		if !strings.HasPrefix(ev, "switch-") {
			s.ackerWindow = false
		}
		s.randomSteps(c.Src.Int("post_steps", 0, 4), "post")
		for i := 0; i < 2; i++ {
			s.write("post")
		}
		rounds := s.quiesce(true, 120)
		s.raise()
		c.Tracef("quiesced after %d rounds", rounds)
		// non-triviality
		lost := false
		for _, p := range s.all {
			if strings.Contains(p.logs.String(), "Lost") {
				lost = true
			}
		}
		pendingSeen := false
		for _, wr := range s.w.Writes {
			if wr.Outcome == vs.WUnknown || wr.Outcome == vs.WPending || !wr.DoneAt.Equal(wr.At) && wr.Outcome == vs.WAcked {
				pendingSeen = true
			}
		}
		if s.masterKey() != master0 {
			c.Class("master-changed")
			c.NonTrivial()
		}
		if pendingSeen {
			c.Class("write-pending-or-unknown")
			c.NonTrivial()
		}
		_ = lost
		if u := s.unknownStatements(); len(u) > 0 {
			c.Violation("harness-unknown-statement", "calibration: fake MySQL did not recognise %v", u)
		}
		if len(s.panics) > 0 {
			c.Class("panic-in-daemon(C20)")
			return
		}
		if sig, msg := s.endStateOracle("c02"); sig != "" {
			s.dumpTrace(traceFrom)
			c.Violation(sig, "event %s for %v on %+v: %s\n%s", ev, dur, sh, msg, s.describe())
		}
	})
}

var simAssumptions = []string{
	"fake MySQL: semi-sync AFTER_SYNC with effectively infinite timeout and wait_no_slave=ON; a crashed server restarts read-only, super-read-only, offline with its binlogged transactions committed and relay logs discarded (project my.cnf); replication progress is a deterministic function of virtual time",
	"fake ZooKeeper: documented znode/session semantics, no watches/ACLs/ensembles",
	"processes interleave at durable blocking points and step boundaries (stepper); wall-clock scheduling effects are outside the bubble",
	"a restarted mysync has a new process identity (incarnation folded into the ZooKeeper hostname); pid reuse is outside the domain",
}
