//go:build verif

package app

import (
	"fmt"
	"sort"
	"strings"
	"testing"
	"time"

	"github.com/rs/zerolog"

	"github.com/yandex/mysync/internal/mysql/gtids"
	vs "github.com/yandex/mysync/internal/verifsim"
)

type refPos struct {
	Host string
	Set  vs.RefSet
	Text string
	Lag  float64
	Prio int64
}

func (p refPos) String() string {
	return fmt.Sprintf("{%s prio=%d lag=%v set=%q}", p.Host, p.Prio, p.Lag, p.Text)
}

func toPositions(ps []refPos) []nodePosition {
	out := make([]nodePosition, len(ps))
	for i, p := range ps {
		out[i] = nodePosition{host: p.Host, gtidset: gtids.ParseGtidSet(p.Text), lag: p.Lag, priority: p.Prio}
	}
	return out
}

func contains(a, b vs.RefSet) bool { return vs.RefEmpty(vs.RefMinus(b, a)) } // a ⊇ b

// genPositionSets builds n GTID sets with a construction rule per shape so that chains,
// equal sets, chains with one incomparable member and antichains all occur often.
func genPositionSets(c *vs.Case, n int) []vs.RefSet {
	shape := c.Src.Pick("shape", "chain", "equal", "chain+incomparable", "antichain", "random")
	c.Class("shape:" + shape)
	sets := make([]vs.RefSet, n)
	ua, ub := vs.GTIDUUIDs[0], vs.GTIDUUIDs[1]
	base := int64(c.Src.Int("base_len", 1, 20))
	for i := range sets {
		r := vs.RefSet{}
		switch shape {
		case "chain":
			r[vs.RefKey(ua, "")] = []vs.RefIv{{Lo: 1, Hi: base + int64(c.Src.Int("extra", 0, 3))}}
			if c.Src.Int("second_uuid", 0, 2) == 0 {
				r[vs.RefKey(ub, "")] = []vs.RefIv{{Lo: 1, Hi: 5}}
			}
		case "equal":
			r[vs.RefKey(ua, "")] = []vs.RefIv{{Lo: 1, Hi: base}}
		case "chain+incomparable":
			r[vs.RefKey(ua, "")] = []vs.RefIv{{Lo: 1, Hi: base + int64(c.Src.Int("extra", 0, 3))}}
		case "antichain":
			r[vs.RefKey(ua, "")] = []vs.RefIv{{Lo: 1, Hi: base}}
			r[vs.RefKey(vs.GTIDUUIDs[2], "")] = []vs.RefIv{{Lo: int64(10 * (i + 1)), Hi: int64(10*(i+1)) + int64(c.Src.Int("own", 0, 2))}}
		case "random":
			if i == 0 {
				r = vs.GenRefSet(c, "set0", false)
			} else {
				r = vs.Derive(c, sets[c.Src.Int("derive_from", 0, i-1)], fmt.Sprintf("set%d", i))
			}
		}
		sets[i] = r
	}
	if shape == "chain+incomparable" && n > 0 {
		i := c.Src.Int("odd_one", 0, n-1)
		what := c.Src.Pick("odd_kind", "errant-foreign-uuid", "gap-below-top", "errant-own-tail")
		switch what {
		case "errant-foreign-uuid":
			sets[i][vs.RefKey(ub, "")] = []vs.RefIv{{Lo: 77, Hi: 77}}
		case "gap-below-top": // multi-threaded applier: has k+2 but lacks k+1
			sets[i][vs.RefKey(ua, "")] = []vs.RefIv{{Lo: 1, Hi: base - 1}, {Lo: base + 5, Hi: base + 5}}
		case "errant-own-tail":
			sets[i][vs.RefKey(ua, "tg")] = []vs.RefIv{{Lo: 1, Hi: 1}}
		}
	}
	return sets
}

// TestVerifC13MostRecent: findMostRecentNodeAndDetectSplitbrain returns a node whose set
// contains all the others', or reports split brain exactly when no such node exists.
func TestVerifC13MostRecent(t *testing.T) {
	s := vs.NewStats(t, "C13")
	s.Rule = "lists of 1-5 node positions whose GTID sets are built as chains, equal sets, chains with one incomparable member (errant foreign-UUID transaction, gap below the top, tagged errant transaction), antichains or random derived sets; lags 0-100; oracle: a maximum by inclusion exists (reference interval model) iff no split brain is reported, and the returned host is such a maximum; non-trivial = at least 2 positions not all equal"
	s.Check(t, vs.CheckOpts{}, func(c *vs.Case) {
		n := c.Src.Int("n", 1, 5)
		sets := genPositionSets(c, n)
		ps := make([]refPos, n)
		for i := range ps {
			ps[i] = refPos{Host: fmt.Sprintf("h%d", i), Set: sets[i], Text: vs.Render(sets[i], false), Lag: float64(c.Src.Int("lag", 0, 100))}
		}
		var maxima []string
		allEq := true
		for i := range ps {
			isMax := true
			for j := range ps {
				if !contains(ps[i].Set, ps[j].Set) {
					isMax = false
				}
				if !vs.RefEqual(ps[i].Set, ps[j].Set) {
					allEq = false
				}
			}
			if isMax {
				maxima = append(maxima, ps[i].Host)
			}
		}
		if n >= 2 && !allEq {
			c.NonTrivial()
		}
		if len(maxima) == 0 {
			c.Class("no-maximum")
		} else {
			c.Class("has-maximum")
		}
		c.Sample(map[string]any{"positions": fmt.Sprint(ps), "maxima": maxima})
		host, set, sb := findMostRecentNodeAndDetectSplitbrain(toPositions(ps))
		if sb != (len(maxima) == 0) {
			c.Violation("c13-mostrecent-splitbrain", "splitbrain=%v but hosts whose set contains all others = %v; positions %v", sb, maxima, ps)
		}
		if !sb {
			ok := false
			for _, m := range maxima {
				ok = ok || m == host
			}
			if !ok {
				c.Violation("c13-mostrecent-host", "returned %q which does not contain all others (maxima %v); positions %v", host, maxima, ps)
			}
			for _, p := range ps {
				if p.Host == host && !vs.RefEqual(vs.FromLib(set), p.Set) {
					c.Violation("c13-mostrecent-set", "returned set %v is not the set of returned host %v", set, p)
				}
			}
		}
	})
}

// ---- C14

func c14Top(ps []refPos) []refPos {
	var maxP int64 = -1 << 62
	for _, p := range ps {
		if p.Prio > maxP {
			maxP = p.Prio
		}
	}
	var top []refPos
	for _, p := range ps {
		if p.Prio != maxP {
			continue
		}
		ok := true
		for _, q := range ps {
			if q.Prio != maxP {
				continue
			}
			if contains(q.Set, p.Set) && !contains(p.Set, q.Set) {
				ok = false // q has strictly more transactions
			}
			if vs.RefEqual(q.Set, p.Set) && q.Lag < p.Lag {
				ok = false // equal transactions, q lags less
			}
		}
		if ok {
			top = append(top, p)
		}
	}
	return top
}

func c14Oracle(ps []refPos, bound time.Duration, result string, err error) (sig, msg string) {
	b := bound.Seconds()
	if len(ps) == 0 {
		if err == nil {
			return "c14-empty", fmt.Sprintf("no candidate offered but %q returned without error", result)
		}
		return "", ""
	}
	if err != nil {
		return "c14-error", fmt.Sprintf("error %v although %d candidates offered", err, len(ps))
	}
	var res *refPos
	for i := range ps {
		if ps[i].Host == result {
			res = &ps[i]
		}
	}
	if res == nil {
		return "c14-not-offered", fmt.Sprintf("returned %q is not one of the offered candidates %v", result, ps)
	}
	top := c14Top(ps)
	ok := false
	for _, t := range top {
		if t.Host == res.Host || (t.Prio == res.Prio && t.Lag == res.Lag && vs.RefEqual(t.Set, res.Set)) {
			ok = true
		}
		if t.Lag > b && res.Lag < t.Lag-b {
			ok = true
		}
	}
	if !ok {
		return "c14-choice", fmt.Sprintf("bound %vs: returned %v is neither a highest-priority candidate (preferring more transactions, then less lag) %v nor lags less than one of them by more than the bound; offered %v", b, *res, top, ps)
	}
	// equal priorities and every lag within the bound: coincides with the most recent node
	eq := true
	for _, p := range ps {
		if p.Prio != ps[0].Prio || p.Lag > b {
			eq = false
		}
	}
	if eq {
		_, set, sb := findMostRecentNodeAndDetectSplitbrain(toPositions(ps))
		if !sb && !vs.RefEqual(vs.FromLib(set), res.Set) {
			return "c14-mostrecent", fmt.Sprintf("equal priorities, lags within bound: returned %v but the most recent node has %v", *res, set)
		}
	}
	return "", ""
}

func genLag(c *vs.Case, b float64) float64 {
	switch c.Src.Pick("lag_kind", "zero", "b-e", "b", "b+e", "2b", "2b+e", "3b+e", "unknown", "random") {
	case "zero":
		return 0
	case "b-e":
		if b >= 0.5 {
			return b - 0.5
		}
		return 0
	case "b":
		return b
	case "b+e":
		return b + 0.5
	case "2b":
		return 2 * b
	case "2b+e":
		return 2*b + 0.5
	case "3b+e":
		return 3*b + 1
	case "unknown":
		return 99999999
	}
	return float64(c.Src.Int("lag", 0, 400))
}

// TestVerifC14 drives getMostDesirableNode (and its composition with the exclusion of the
// 'from' host) against the statement of C14.
func TestVerifC14(t *testing.T) {
	s := vs.NewStats(t, "C14")
	s.Rule = "0-6 candidates with priorities 0-3, lags on the grid {0,b-e,b,b+e,2b,2b+e,3b+e,unknown=99999999,random}, GTID sets as chain/equal/chain+incomparable/antichain/random, bound b in {0,1s,30s,60s,120s,1h}; optional 'from' host; oracle = validity predicate from the statement (result offered; error iff none offered; never 'from'; result is a highest-priority candidate by (priority, more transactions, less lag) or lags less than one by more than b; equal priorities with lags within b coincide with the most recent node); each call runs under a watchdog (10 s for a microsecond function) for the termination clause; non-trivial = at least 2 candidates and (priority tie or the top candidate lags more than b)"
	lg := zerolog.Nop()
	s.Check(t, vs.CheckOpts{}, func(c *vs.Case) {
		bound := []time.Duration{0, time.Second, 30 * time.Second, 60 * time.Second, 120 * time.Second, time.Hour}[c.Src.Int("bound", 0, 5)]
		n := c.Src.Int("n", 0, 6)
		var ps []refPos
		if n > 0 {
			sets := genPositionSets(c, n)
			for i := 0; i < n; i++ {
				ps = append(ps, refPos{Host: fmt.Sprintf("h%d", i), Set: sets[i], Text: vs.Render(sets[i], false),
					Lag: genLag(c, bound.Seconds()), Prio: int64(c.Src.Int("priority", 0, 3))})
			}
		}
		from := ""
		if c.Src.Bool("with_from") {
			from = fmt.Sprintf("h%d", c.Src.Int("from", 0, 6))
		}
		offered := ps
		if from != "" {
			offered = nil
			for _, p := range ps {
				if p.Host != from {
					offered = append(offered, p)
				}
			}
		}
		top := c14Top(offered)
		if len(offered) >= 2 {
			tie := 0
			for _, p := range offered {
				if len(top) > 0 && p.Prio == top[0].Prio {
					tie++
				}
			}
			lagging := false
			for _, tp := range top {
				lagging = lagging || tp.Lag > bound.Seconds()
			}
			if tie >= 2 || lagging {
				c.NonTrivial()
			}
			if lagging {
				c.Class("top-lags-beyond-bound")
			}
			if tie >= 2 {
				c.Class("priority-tie")
			}
		}
		if len(offered) == 0 {
			c.Class("nothing-offered")
		}
		c.Sample(map[string]any{"bound_s": bound.Seconds(), "from": from, "candidates": fmt.Sprint(ps)})
		c.Flight()
		type out struct {
			host string
			err  error
		}
		ch := make(chan out, 1)
		go func() {
			positions := toPositions(ps)
			if from != "" {
				positions = filterOutNodeFromPositions(positions, from)
			}
			h, err := getMostDesirableNode(&lg, positions, bound)
			ch <- out{h, err}
		}()
		var o out
		select {
		case o = <-ch:
		case <-time.After(10 * time.Second):
			c.Violation("c14-termination", "getMostDesirableNode did not return within 10 s for %v (bound %v)", ps, bound)
		}
		if from != "" && o.err == nil && o.host == from {
			c.Violation("c14-from", "returned the host the switch moves away from (%s); candidates %v", from, ps)
		}
		if sig, msg := c14Oracle(offered, bound, o.host, o.err); sig != "" {
			c.Violation(sig, "%s", msg)
		}
	})
}

var _ = sort.Strings
var _ = strings.Join
