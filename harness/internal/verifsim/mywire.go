//go:build verif

package verifsim

import (
	"encoding/binary"
	"errors"
	"io"
	"net"
)

// Minimal MySQL wire protocol server side: protocol-10 handshake (any
// credentials accepted), COM_QUERY with text result sets / OK / ERR, COM_PING,
// COM_QUIT. The harness sets interpolateParams=true in mysync's DSN settings,
// so the driver never prepares statements.

type Col struct {
	Name string
	Type byte // 0x08 LONGLONG, 0xfd VAR_STRING, 0x05 DOUBLE
}

const (
	TInt = 0x08
	TStr = 0xfd
	TDbl = 0x05
)

// Result of one statement: rows, OK (nil or empty Cols with OK set) or error.
type Result struct {
	Cols   []Col
	Rows   [][]any // nil => NULL; other values must be strings
	ErrNo  uint16
	ErrMsg string
	// Drop: close the connection instead of answering.
	Drop bool
}

func ErrResult(no uint16, msg string) *Result { return &Result{ErrNo: no, ErrMsg: msg} }

func readPacket(c net.Conn) (seq byte, payload []byte, err error) {
	var h [4]byte
	if _, err = io.ReadFull(c, h[:]); err != nil {
		return
	}
	n := int(h[0]) | int(h[1])<<8 | int(h[2])<<16
	seq = h[3]
	payload = make([]byte, n)
	_, err = io.ReadFull(c, payload)
	return
}

func writePacket(c net.Conn, seq byte, p []byte) error {
	b := make([]byte, 4+len(p))
	b[0], b[1], b[2], b[3] = byte(len(p)), byte(len(p)>>8), byte(len(p)>>16), seq
	copy(b[4:], p)
	_, err := c.Write(b)
	return err
}

func lenenc(b []byte, n uint64) []byte {
	switch {
	case n < 251:
		return append(b, byte(n))
	case n < 1<<16:
		return append(b, 0xfc, byte(n), byte(n>>8))
	case n < 1<<24:
		return append(b, 0xfd, byte(n), byte(n>>8), byte(n>>16))
	}
	return binary.LittleEndian.AppendUint64(append(b, 0xfe), n)
}
func lenstr(b []byte, s string) []byte { return append(lenenc(b, uint64(len(s))), s...) }
func okPacket() []byte                 { return []byte{0, 0, 0, 2, 0, 0, 0} }
func eofPacket() []byte                { return []byte{0xfe, 0, 0, 2, 0} }
func errPacket(no uint16, msg string) []byte {
	return append([]byte{0xff, byte(no), byte(no >> 8), '#', 'H', 'Y', '0', '0', '0'}, msg...)
}

// ServeMySQL handles one client connection until it closes. version is the
// server version string of the handshake.
func ServeMySQL(c net.Conn, connID uint32, version string, h func(query string) *Result) error {
	defer c.Close()
	caps := uint32(1 | 4 | 8 | 0x200 | 0x2000 | 0x8000 | 1<<19)
	g := []byte{10}
	g = append(g, version+"\x00"...)
	g = binary.LittleEndian.AppendUint32(g, connID)
	g = append(g, "abcdefgh\x00"...)
	g = binary.LittleEndian.AppendUint16(g, uint16(caps))
	g = append(g, 45)
	g = binary.LittleEndian.AppendUint16(g, 2)
	g = binary.LittleEndian.AppendUint16(g, uint16(caps>>16))
	g = append(g, 21)
	g = append(g, make([]byte, 10)...)
	g = append(g, "ijklmnopqrst\x00"...)
	g = append(g, "mysql_native_password\x00"...)
	if err := writePacket(c, 0, g); err != nil {
		return err
	}
	seq, _, err := readPacket(c)
	if err != nil {
		return err
	}
	if err := writePacket(c, seq+1, okPacket()); err != nil {
		return err
	}
	for {
		_, p, err := readPacket(c)
		if err != nil {
			return err
		}
		if len(p) == 0 {
			return errors.New("empty packet")
		}
		switch p[0] {
		case 0x01:
			return nil
		case 0x0e:
			if err := writePacket(c, 1, okPacket()); err != nil {
				return err
			}
		case 0x03:
			r := h(string(p[1:]))
			if r != nil && r.Drop {
				return nil
			}
			if err := writeResult(c, r); err != nil {
				return err
			}
		default:
			if err := writePacket(c, 1, errPacket(1047, "unknown command")); err != nil {
				return err
			}
		}
	}
}

func writeResult(c net.Conn, r *Result) error {
	if r == nil || (r.ErrNo == 0 && r.Cols == nil) {
		return writePacket(c, 1, okPacket())
	}
	if r.ErrNo != 0 {
		return writePacket(c, 1, errPacket(r.ErrNo, r.ErrMsg))
	}
	// one write per result set keeps the number of pipe hand-offs low
	var out []byte
	seq := byte(1)
	add := func(p []byte) {
		out = append(out, byte(len(p)), byte(len(p)>>8), byte(len(p)>>16), seq)
		out = append(out, p...)
		seq++
	}
	add(lenenc(nil, uint64(len(r.Cols))))
	for _, col := range r.Cols {
		var b []byte
		b = lenstr(b, "def")
		b = lenstr(b, "")
		b = lenstr(b, "")
		b = lenstr(b, "")
		b = lenstr(b, col.Name)
		b = lenstr(b, col.Name)
		b = append(b, 0x0c)
		cs := uint16(45)
		if col.Type != TStr {
			cs = 63
		}
		b = binary.LittleEndian.AppendUint16(b, cs)
		b = binary.LittleEndian.AppendUint32(b, 1024)
		b = append(b, col.Type)
		b = binary.LittleEndian.AppendUint16(b, 0)
		b = append(b, 0, 0, 0)
		add(b)
	}
	add(eofPacket())
	for _, row := range r.Rows {
		var b []byte
		for _, v := range row {
			if v == nil {
				b = append(b, 0xfb)
			} else {
				b = lenstr(b, v.(string))
			}
		}
		add(b)
	}
	add(eofPacket())
	_, err := c.Write(out)
	return err
}
