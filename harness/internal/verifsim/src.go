//go:build verif

// Package verifsim is verification-only support code injected through a build
// overlay (it does not exist in the repository). It holds the draw source that
// keeps every random choice inside rapid, the statistics / evidence collector,
// and the fake ZooKeeper and MySQL servers.
package verifsim

import (
	"fmt"

	"pgregory.net/rapid"
)

// Draw is one recorded random choice. A list of draws is the replay script.
type Draw struct {
	L string `json:"l"`
	V any    `json:"v"`
}

// Src is the only source of randomness a property may use.
type Src interface {
	Int(label string, lo, hi int) int
	Int64(label string, lo, hi int64) int64
	Bool(label string) bool
	Pick(label string, options ...string) string
}

type scriptMismatch struct{ msg string }
type scriptExhausted struct{}

type rapidSrc struct {
	rt *rapid.T
	c  *Case
}

func (s *rapidSrc) Int(label string, lo, hi int) int {
	v := rapid.IntRange(lo, hi).Draw(s.rt, label)
	s.c.record(label, v)
	return v
}

func (s *rapidSrc) Int64(label string, lo, hi int64) int64 {
	v := rapid.Int64Range(lo, hi).Draw(s.rt, label)
	s.c.record(label, v)
	return v
}

func (s *rapidSrc) Bool(label string) bool {
	v := rapid.Bool().Draw(s.rt, label)
	s.c.record(label, v)
	return v
}

func (s *rapidSrc) Pick(label string, options ...string) string {
	v := options[rapid.IntRange(0, len(options)-1).Draw(s.rt, label)]
	s.c.record(label, v)
	return v
}

// listSrc replays a recorded script (or feeds enumerated values).
type listSrc struct {
	draws []Draw
	pos   int
	c     *Case
}

func (s *listSrc) next(label string) any {
	if s.pos >= len(s.draws) {
		// the saved script ends where the original run failed; running past it means the
		// violation did not occur this time
		panic(scriptExhausted{})
	}
	d := s.draws[s.pos]
	s.pos++
	if d.L != label {
		panic(scriptMismatch{fmt.Sprintf("script draw %d has label %q, code asks for %q", s.pos-1, d.L, label)})
	}
	s.c.record(label, d.V)
	return d.V
}

func toInt64(v any) int64 {
	switch x := v.(type) {
	case int:
		return int64(x)
	case int64:
		return x
	case float64:
		return int64(x)
	case uint64:
		return int64(x)
	}
	panic(scriptMismatch{fmt.Sprintf("value %v (%T) is not an integer", v, v)})
}

func (s *listSrc) Int(label string, lo, hi int) int {
	v := int(toInt64(s.next(label)))
	if v < lo || v > hi {
		panic(scriptMismatch{fmt.Sprintf("%s=%d outside [%d,%d]", label, v, lo, hi)})
	}
	return v
}

func (s *listSrc) Int64(label string, lo, hi int64) int64 {
	v := toInt64(s.next(label))
	if v < lo || v > hi {
		panic(scriptMismatch{fmt.Sprintf("%s=%d outside [%d,%d]", label, v, lo, hi)})
	}
	return v
}

func (s *listSrc) Bool(label string) bool {
	b, ok := s.next(label).(bool)
	if !ok {
		panic(scriptMismatch{label + ": not a bool"})
	}
	return b
}

func (s *listSrc) Pick(label string, options ...string) string {
	v, ok := s.next(label).(string)
	if !ok {
		panic(scriptMismatch{label + ": not a string"})
	}
	for _, o := range options {
		if o == v {
			return v
		}
	}
	panic(scriptMismatch{fmt.Sprintf("%s=%q not among %v", label, v, options)})
}

func (m scriptMismatch) Error() string { return "script mismatch: " + m.msg }
