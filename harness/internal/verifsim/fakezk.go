//go:build verif

package verifsim

import (
	"encoding/binary"
	"errors"
	"fmt"
	"io"
	"net"
	"sort"
	"strings"
	"sync"
	"time"
)

// Fake ZooKeeper server speaking the jute wire protocol over in-memory
// connections. It implements znodes with versions, persistent and ephemeral
// nodes, sessions that expire after the negotiated timeout of silence, and the
// requests mysync's client issues (no watches: mysync sets none).

const (
	zkOK                      = 0
	zkNoNode                  = -101
	zkBadVersion              = -103
	zkNoChildrenForEphemerals = -108
	zkNodeExists              = -110
	zkNotEmpty                = -111
	zkSessionExpired          = -112
	zkUnimplemented           = -6

	OpCreate      = 1
	OpDelete      = 2
	OpExists      = 3
	OpGetData     = 4
	OpSetData     = 5
	OpChildren2   = 12
	OpPing        = 11
	OpClose       = -11
	OpSetAuth     = 100
	OpExpire      = -1000 // pseudo op in the mutation log: session expiry
	OpConnect     = -1001 // pseudo op in the request log
	OpRawSet      = -1002 // harness wrote the tree directly (external tool)
	OpRawDelete   = -1003
	sessionPasswd = "0123456789abcdef"
)

type znode struct {
	data           []byte
	version        int32
	cversion       int32
	czxid, mzxid   int64
	pzxid          int64
	ephemeralOwner int64
	children       map[string]struct{}
}

type zsession struct {
	id      int64
	client  string
	timeout time.Duration
	timer   *time.Timer
	conn    net.Conn
	expired bool
	lastReq time.Time
}

// ZKReq is one request as seen by the server (also handed to the interceptor).
type ZKReq struct {
	Seq     int
	Client  string
	Session int64
	Op      int32
	Path    string
	Data    []byte
	Flags   int32
	Version int32
	Code    int
	Zxid    int64
	At      time.Time
	Applied bool
}

// ZKMutation is one change of the tree (create/delete/set/expiry clean-up).
type ZKMutation struct {
	Zxid    int64
	At      time.Time
	Op      int32
	Path    string
	Data    []byte
	Session int64 // session that issued it (expired session for expiry clean-up)
	Client  string
	Owner   int64 // ephemeral owner of the node (create) / of the deleted node
}

// ZKAction is what the interceptor asks the server to do with a request.
type ZKAction int

const (
	ZKProceed   ZKAction = iota
	ZKCutBefore          // drop the connection, request not applied
	ZKCutAfter           // apply the request, drop the connection instead of answering (reply lost)
	ZKHang               // never answer on this connection (request not applied); the client's read deadline ends it
)

// ZKLink is the network between one client process and the server.
type ZKLink struct {
	mu      sync.Mutex
	Refuse  bool          // new connections are refused
	DropC2S bool          // client->server writes vanish
	DropS2C bool          // server->client writes vanish
	Delay   time.Duration // each message is delayed by this much
	conns   []net.Conn
	delayed int // writes currently held back by Delay
}

// Drain waits (virtual time) until no delayed message is in flight any more.
func (l *ZKLink) Drain() {
	for {
		l.mu.Lock()
		n := l.delayed
		l.mu.Unlock()
		if n == 0 {
			return
		}
		time.Sleep(10 * time.Millisecond)
	}
}

func (l *ZKLink) get() (bool, bool, bool, time.Duration) {
	l.mu.Lock()
	defer l.mu.Unlock()
	return l.Refuse, l.DropC2S, l.DropS2C, l.Delay
}

// Set changes the link's fault flags.
func (l *ZKLink) Set(f func(l *ZKLink)) {
	l.mu.Lock()
	f(l)
	l.mu.Unlock()
}

// Sever closes every open connection of the link (no close handshake).
func (l *ZKLink) Sever() {
	l.mu.Lock()
	cs := l.conns
	l.conns = nil
	l.mu.Unlock()
	for _, c := range cs {
		c.Close()
	}
}

type faultConn struct {
	net.Conn
	link     *ZKLink
	toServer bool
}

func (f *faultConn) Write(b []byte) (int, error) {
	_, c2s, s2c, d := f.link.get()
	if d > 0 {
		f.link.mu.Lock()
		f.link.delayed++
		f.link.mu.Unlock()
		time.Sleep(d)
		f.link.mu.Lock()
		f.link.delayed--
		f.link.mu.Unlock()
	}
	if (f.toServer && c2s) || (!f.toServer && s2c) {
		return len(b), nil
	}
	return f.Conn.Write(b)
}

type ZKServer struct {
	mu        sync.Mutex
	zxid      int64
	nodes     map[string]*znode
	sessions  map[int64]*zsession
	nextSess  int64
	links     map[string]*ZKLink
	down      bool
	seq       int
	Requests  []ZKReq
	Mutations []ZKMutation
	// Intercept, if set, is called (without the server lock) for every request
	// except ping before it is applied.
	Intercept func(r *ZKReq) ZKAction
	// OnMutation, if set, is called with the server lock held after every change.
	OnMutation func(m ZKMutation)
	LogReads   bool
}

func NewZKServer() *ZKServer {
	s := &ZKServer{nodes: map[string]*znode{}, sessions: map[int64]*zsession{}, nextSess: 0x1000, links: map[string]*ZKLink{}}
	s.nodes["/"] = &znode{children: map[string]struct{}{}}
	return s
}

// Link returns (creating it) the link of a client process.
func (s *ZKServer) Link(client string) *ZKLink {
	s.mu.Lock()
	defer s.mu.Unlock()
	l := s.links[client]
	if l == nil {
		l = &ZKLink{}
		s.links[client] = l
	}
	return l
}

// Dialer returns a zk.Dialer-compatible function for one client process.
func (s *ZKServer) Dialer(client string) func(network, addr string, timeout time.Duration) (net.Conn, error) {
	link := s.Link(client)
	return func(network, addr string, timeout time.Duration) (net.Conn, error) {
		refuse, _, _, _ := link.get()
		s.mu.Lock()
		down := s.down
		s.mu.Unlock()
		if refuse || down {
			return nil, errors.New("dial tcp " + addr + ": connect: connection refused")
		}
		cl, sv := net.Pipe()
		link.mu.Lock()
		link.conns = append(link.conns, cl, sv)
		link.mu.Unlock()
		go s.serve(&faultConn{Conn: sv, link: link}, client)
		return &faultConn{Conn: cl, link: link, toServer: true}, nil
	}
}

// SetDown stops (true) or restarts (false) the whole server; while down every
// connection is dropped and refused, session timers keep running (as a real
// ensemble that lost quorum: clients cannot reach it; on return sessions that
// were silent for longer than their timeout are expired).
func (s *ZKServer) SetDown(down bool) {
	s.mu.Lock()
	s.down = down
	var links []*ZKLink
	for _, l := range s.links {
		links = append(links, l)
	}
	s.mu.Unlock()
	if down {
		for _, l := range links {
			l.Sever()
		}
	}
}

type dec struct {
	b   []byte
	err bool
}

func (d *dec) i32() int32 {
	if len(d.b) < 4 {
		d.err = true
		return 0
	}
	v := int32(binary.BigEndian.Uint32(d.b))
	d.b = d.b[4:]
	return v
}
func (d *dec) i64() int64 {
	if len(d.b) < 8 {
		d.err = true
		return 0
	}
	v := int64(binary.BigEndian.Uint64(d.b))
	d.b = d.b[8:]
	return v
}
func (d *dec) buf() []byte {
	n := d.i32()
	if n < 0 {
		return nil
	}
	if int(n) > len(d.b) {
		d.err = true
		return nil
	}
	v := d.b[:n]
	d.b = d.b[n:]
	return append([]byte{}, v...)
}
func (d *dec) str() string { return string(d.buf()) }
func (d *dec) bool() bool {
	if len(d.b) < 1 {
		d.err = true
		return false
	}
	v := d.b[0] != 0
	d.b = d.b[1:]
	return v
}

type enc struct{ b []byte }

func (e *enc) i32(v int32) { e.b = binary.BigEndian.AppendUint32(e.b, uint32(v)) }
func (e *enc) i64(v int64) { e.b = binary.BigEndian.AppendUint64(e.b, uint64(v)) }
func (e *enc) buf(v []byte) {
	if v == nil {
		e.i32(-1)
		return
	}
	e.i32(int32(len(v)))
	e.b = append(e.b, v...)
}
func (e *enc) str(v string) { e.i32(int32(len(v))); e.b = append(e.b, v...) }
func (e *enc) stat(n *znode) {
	e.i64(n.czxid)
	e.i64(n.mzxid)
	e.i64(0)
	e.i64(0)
	e.i32(n.version)
	e.i32(n.cversion)
	e.i32(0)
	e.i64(n.ephemeralOwner)
	e.i32(int32(len(n.data)))
	e.i32(int32(len(n.children)))
	e.i64(n.pzxid)
}

func readFrame(c net.Conn) ([]byte, error) {
	var h [4]byte
	if _, err := io.ReadFull(c, h[:]); err != nil {
		return nil, err
	}
	n := binary.BigEndian.Uint32(h[:])
	if n > 1<<24 {
		return nil, errors.New("frame too large")
	}
	b := make([]byte, n)
	_, err := io.ReadFull(c, b)
	return b, err
}

func writeFrame(c net.Conn, b []byte) error {
	out := binary.BigEndian.AppendUint32(make([]byte, 0, 4+len(b)), uint32(len(b)))
	_, err := c.Write(append(out, b...))
	return err
}

func zkParent(p string) string {
	i := strings.LastIndex(p, "/")
	if i <= 0 {
		return "/"
	}
	return p[:i]
}
func zkBase(p string) string { return p[strings.LastIndex(p, "/")+1:] }

func (s *ZKServer) mutate(m ZKMutation) { // mu held
	m.Zxid = s.zxid
	m.At = time.Now()
	s.Mutations = append(s.Mutations, m)
	if s.OnMutation != nil {
		s.OnMutation(m)
	}
}

func (s *ZKServer) removeNode(p string) { // mu held
	delete(s.nodes, p)
	if pn := s.nodes[zkParent(p)]; pn != nil {
		delete(pn.children, zkBase(p))
		pn.cversion++
		pn.pzxid = s.zxid
	}
}

func (s *ZKServer) expire(sess *zsession) { // mu held
	if sess.expired {
		return
	}
	sess.expired = true
	if sess.timer != nil {
		sess.timer.Stop()
	}
	s.zxid++
	var paths []string
	for p, n := range s.nodes {
		if n.ephemeralOwner == sess.id {
			paths = append(paths, p)
		}
	}
	sort.Strings(paths)
	for _, p := range paths {
		s.removeNode(p)
		s.mutate(ZKMutation{Op: OpExpire, Path: p, Session: sess.id, Client: sess.client, Owner: sess.id})
	}
	if len(paths) == 0 {
		s.mutate(ZKMutation{Op: OpExpire, Path: "", Session: sess.id, Client: sess.client, Owner: sess.id})
	}
	if sess.conn != nil {
		sess.conn.Close()
		sess.conn = nil
	}
	delete(s.sessions, sess.id)
}

func (s *ZKServer) touch(sess *zsession) { // mu held
	sess.lastReq = time.Now()
	if sess.timer != nil {
		sess.timer.Stop()
	}
	sess.timer = time.AfterFunc(sess.timeout, func() {
		s.mu.Lock()
		defer s.mu.Unlock()
		s.expire(sess)
	})
}

// ExpireClient force-expires every live session of a client.
func (s *ZKServer) ExpireClient(client string) {
	s.mu.Lock()
	defer s.mu.Unlock()
	for _, x := range s.sessions {
		if x.client == client {
			s.expire(x)
		}
	}
}

// SessionAlive reports whether the session is still alive on the server.
func (s *ZKServer) SessionAlive(id int64) bool {
	s.mu.Lock()
	defer s.mu.Unlock()
	x := s.sessions[id]
	return x != nil && !x.expired
}

// LiveSessions returns the ids of the live sessions of a client.
func (s *ZKServer) LiveSessions(client string) []int64 {
	s.mu.Lock()
	defer s.mu.Unlock()
	var ids []int64
	for _, x := range s.sessions {
		if x.client == client && !x.expired {
			ids = append(ids, x.id)
		}
	}
	sort.Slice(ids, func(i, j int) bool { return ids[i] < ids[j] })
	return ids
}

// Stop cancels all session timers and drops all connections (end of a case).
func (s *ZKServer) Stop() {
	s.mu.Lock()
	s.down = true
	for _, x := range s.sessions {
		if x.timer != nil {
			x.timer.Stop()
		}
	}
	var links []*ZKLink
	for _, l := range s.links {
		links = append(links, l)
	}
	s.mu.Unlock()
	for _, l := range links {
		// writes must fail on the closed pipes instead of being swallowed or delayed,
		// otherwise a client's send loop can outlive the case
		l.Set(func(l *ZKLink) { l.Delay, l.DropC2S, l.DropS2C, l.Refuse = 0, false, false, true })
		l.Sever()
	}
	for _, l := range links {
		l.Drain()
	}
}

// ZNodeView is a copy of one node for oracles.
type ZNodeView struct {
	Data    string
	Owner   int64
	Version int32
}

// Dump returns a copy of the whole tree.
func (s *ZKServer) Dump() map[string]ZNodeView {
	s.mu.Lock()
	defer s.mu.Unlock()
	m := make(map[string]ZNodeView, len(s.nodes))
	for p, n := range s.nodes {
		m[p] = ZNodeView{string(n.data), n.ephemeralOwner, n.version}
	}
	return m
}

// Get returns the data of one node.
func (s *ZKServer) Get(path string) (string, bool) {
	s.mu.Lock()
	defer s.mu.Unlock()
	n := s.nodes[path]
	if n == nil {
		return "", false
	}
	return string(n.data), true
}

// Children returns the sorted children of a node.
func (s *ZKServer) Children(path string) []string {
	s.mu.Lock()
	defer s.mu.Unlock()
	n := s.nodes[path]
	if n == nil {
		return nil
	}
	var ch []string
	for c := range n.children {
		ch = append(ch, c)
	}
	sort.Strings(ch)
	return ch
}

// RawSet writes a persistent node directly (an external tool / operator);
// missing parents are created as empty persistent nodes.
func (s *ZKServer) RawSet(path string, data []byte) {
	s.mu.Lock()
	defer s.mu.Unlock()
	parts := strings.Split(strings.Trim(path, "/"), "/")
	cur := ""
	for i, p := range parts {
		cur += "/" + p
		n := s.nodes[cur]
		last := i == len(parts)-1
		if n == nil {
			s.zxid++
			n = &znode{data: []byte{}, czxid: s.zxid, mzxid: s.zxid, pzxid: s.zxid, children: map[string]struct{}{}}
			if last {
				n.data = data
			}
			s.nodes[cur] = n
			pn := s.nodes[zkParent(cur)]
			pn.children[p] = struct{}{}
			pn.cversion++
			pn.pzxid = s.zxid
			s.mutate(ZKMutation{Op: OpRawSet, Path: cur, Data: n.data, Client: "raw"})
		} else if last {
			s.zxid++
			n.data = data
			n.version++
			n.mzxid = s.zxid
			s.mutate(ZKMutation{Op: OpRawSet, Path: cur, Data: data, Client: "raw"})
		}
	}
}

// RawDelete removes a node and its subtree directly.
func (s *ZKServer) RawDelete(path string) {
	s.mu.Lock()
	defer s.mu.Unlock()
	var paths []string
	for p := range s.nodes {
		if p == path || strings.HasPrefix(p, path+"/") {
			paths = append(paths, p)
		}
	}
	sort.Sort(sort.Reverse(sort.StringSlice(paths)))
	for _, p := range paths {
		s.zxid++
		s.removeNode(p)
		s.mutate(ZKMutation{Op: OpRawDelete, Path: p, Client: "raw"})
	}
}

func (s *ZKServer) serve(c net.Conn, client string) {
	defer c.Close()
	b, err := readFrame(c)
	if err != nil {
		return
	}
	d := &dec{b: b}
	d.i32()
	d.i64()
	to := d.i32()
	sid := d.i64()
	pw := d.buf()
	s.mu.Lock()
	if s.down {
		s.mu.Unlock()
		return
	}
	var sess *zsession
	if sid != 0 {
		sess = s.sessions[sid]
		if sess != nil && (sess.expired || string(pw) != sessionPasswd) {
			sess = nil
		}
		if sess == nil {
			s.seq++
			s.Requests = append(s.Requests, ZKReq{Seq: s.seq, Client: client, Session: sid, Op: OpConnect, Code: zkSessionExpired, At: time.Now()})
			s.mu.Unlock()
			e := &enc{}
			e.i32(0)
			e.i32(0)
			e.i64(0)
			e.buf(make([]byte, 16))
			_ = writeFrame(c, e.b)
			return
		}
		if sess.conn != nil {
			sess.conn.Close()
		}
	} else {
		s.nextSess++
		t := time.Duration(to) * time.Millisecond
		if t < 100*time.Millisecond {
			t = 100 * time.Millisecond
		}
		sess = &zsession{id: s.nextSess, client: client, timeout: t}
		s.sessions[sess.id] = sess
	}
	sess.conn = c
	s.touch(sess)
	s.seq++
	s.Requests = append(s.Requests, ZKReq{Seq: s.seq, Client: client, Session: sess.id, Op: OpConnect, At: time.Now()})
	s.mu.Unlock()
	e := &enc{}
	e.i32(0)
	e.i32(int32(sess.timeout / time.Millisecond))
	e.i64(sess.id)
	e.buf([]byte(sessionPasswd))
	if writeFrame(c, e.b) != nil {
		return
	}
	for {
		b, err := readFrame(c)
		if err != nil {
			return
		}
		d := &dec{b: b}
		xid := d.i32()
		op := d.i32()
		req := ZKReq{Client: client, Session: sess.id, Op: op}
		s.parse(&req, d)
		act := ZKProceed
		if op != OpPing && s.Intercept != nil {
			act = s.Intercept(&req)
		}
		switch act {
		case ZKCutBefore:
			return
		case ZKHang:
			// stop serving this connection without closing it; the client's
			// receive deadline (2/3 of the session timeout) ends it
			buf := make([]byte, 256)
			for {
				if _, err := c.Read(buf); err != nil {
					return
				}
			}
		}
		s.mu.Lock()
		if sess.expired || s.down {
			s.mu.Unlock()
			return
		}
		s.touch(sess)
		out := &enc{}
		code := s.apply(sess, &req, out)
		req.Code, req.Zxid, req.At, req.Applied = code, s.zxid, time.Now(), true
		if op != OpPing && (s.LogReads || (op != OpGetData && op != OpExists && op != OpChildren2)) {
			s.seq++
			req.Seq = s.seq
			s.Requests = append(s.Requests, req)
		}
		zx := s.zxid
		s.mu.Unlock()
		if act == ZKCutAfter {
			return
		}
		r := &enc{}
		r.i32(xid)
		r.i64(zx)
		r.i32(int32(code))
		if code == zkOK {
			r.b = append(r.b, out.b...)
		}
		if writeFrame(c, r.b) != nil {
			return
		}
		if op == OpClose {
			return
		}
	}
}

func (s *ZKServer) parse(r *ZKReq, d *dec) {
	switch r.Op {
	case OpCreate:
		r.Path = d.str()
		r.Data = d.buf()
		nacl := d.i32()
		for i := int32(0); i < nacl && !d.err; i++ {
			d.i32()
			d.str()
			d.str()
		}
		r.Flags = d.i32()
	case OpDelete:
		r.Path = d.str()
		r.Version = d.i32()
	case OpExists, OpGetData, OpChildren2:
		r.Path = d.str()
	case OpSetData:
		r.Path = d.str()
		r.Data = d.buf()
		r.Version = d.i32()
	}
}

func (s *ZKServer) apply(sess *zsession, r *ZKReq, out *enc) int { // mu held
	switch r.Op {
	case OpPing, OpSetAuth:
		return zkOK
	case OpClose:
		s.expire(sess)
		return zkOK
	case OpCreate:
		if _, ok := s.nodes[r.Path]; ok {
			return zkNodeExists
		}
		pn := s.nodes[zkParent(r.Path)]
		if pn == nil {
			return zkNoNode
		}
		if pn.ephemeralOwner != 0 {
			return zkNoChildrenForEphemerals
		}
		if r.Flags&^1 != 0 {
			return zkUnimplemented // sequential / container / ttl nodes: mysync uses none
		}
		s.zxid++
		data := r.Data
		if data == nil {
			data = []byte{}
		}
		n := &znode{data: data, czxid: s.zxid, mzxid: s.zxid, pzxid: s.zxid, children: map[string]struct{}{}}
		if r.Flags&1 != 0 {
			n.ephemeralOwner = sess.id
		}
		s.nodes[r.Path] = n
		pn.children[zkBase(r.Path)] = struct{}{}
		pn.cversion++
		pn.pzxid = s.zxid
		out.str(r.Path)
		s.mutate(ZKMutation{Op: OpCreate, Path: r.Path, Data: data, Session: sess.id, Client: sess.client, Owner: n.ephemeralOwner})
		return zkOK
	case OpDelete:
		n := s.nodes[r.Path]
		if n == nil {
			return zkNoNode
		}
		if r.Version != -1 && r.Version != n.version {
			return zkBadVersion
		}
		if len(n.children) > 0 {
			return zkNotEmpty
		}
		s.zxid++
		s.removeNode(r.Path)
		s.mutate(ZKMutation{Op: OpDelete, Path: r.Path, Session: sess.id, Client: sess.client, Owner: n.ephemeralOwner})
		return zkOK
	case OpExists, OpGetData:
		n := s.nodes[r.Path]
		if n == nil {
			return zkNoNode
		}
		if r.Op == OpGetData {
			out.buf(n.data)
		}
		out.stat(n)
		return zkOK
	case OpSetData:
		n := s.nodes[r.Path]
		if n == nil {
			return zkNoNode
		}
		if r.Version != -1 && r.Version != n.version {
			return zkBadVersion
		}
		s.zxid++
		data := r.Data
		if data == nil {
			data = []byte{}
		}
		n.data = data
		n.version++
		n.mzxid = s.zxid
		out.stat(n)
		s.mutate(ZKMutation{Op: OpSetData, Path: r.Path, Data: data, Session: sess.id, Client: sess.client, Owner: n.ephemeralOwner})
		return zkOK
	case OpChildren2:
		n := s.nodes[r.Path]
		if n == nil {
			return zkNoNode
		}
		var ch []string
		for c := range n.children {
			ch = append(ch, c)
		}
		sort.Strings(ch)
		out.i32(int32(len(ch)))
		for _, c := range ch {
			out.str(c)
		}
		out.stat(n)
		return zkOK
	}
	return zkUnimplemented
}

// OpName is for traces.
func OpName(op int32) string {
	switch op {
	case OpCreate:
		return "create"
	case OpDelete:
		return "delete"
	case OpExists:
		return "exists"
	case OpGetData:
		return "get"
	case OpSetData:
		return "set"
	case OpChildren2:
		return "children"
	case OpClose:
		return "close"
	case OpExpire:
		return "expire"
	case OpConnect:
		return "connect"
	case OpRawSet:
		return "rawset"
	case OpRawDelete:
		return "rawdelete"
	}
	return fmt.Sprint(op)
}

// MutLen / ReqLen / MutSnapshot give race-free access to the logs.
func (s *ZKServer) MutLen() int { s.mu.Lock(); defer s.mu.Unlock(); return len(s.Mutations) }
func (s *ZKServer) ReqLen() int { s.mu.Lock(); defer s.mu.Unlock(); return len(s.Requests) }
func (s *ZKServer) MutSnapshot() []ZKMutation {
	s.mu.Lock()
	defer s.mu.Unlock()
	return append([]ZKMutation(nil), s.Mutations...)
}
func (s *ZKServer) ReqSnapshot() []ZKReq {
	s.mu.Lock()
	defer s.mu.Unlock()
	return append([]ZKReq(nil), s.Requests...)
}
