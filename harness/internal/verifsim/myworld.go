//go:build verif

package verifsim

import (
	"context"
	"errors"
	"fmt"
	"net"
	"os"
	"regexp"
	"sort"
	"strconv"
	"strings"
	"sync"
	"time"
)

// ---------------------------------------------------------------- data

// Txn is one transaction in a binary log.
type Txn struct {
	UUID string
	Gno  int64
	Size int64
	At   time.Time // commit time at the origin
	W    int       // workload write id (0: none)
}

type txnKey struct {
	UUID string
	Gno  int64
}

func (t Txn) key() txnKey { return txnKey{t.UUID, t.Gno} }

type relayEntry struct {
	Txn
	RecvAt time.Time
}

// Channel is the (single) replication channel of a host.
type Channel struct {
	Source       string
	IODesired    bool // IO thread started
	SQLDesired   bool // SQL thread started
	IOConnected  bool
	IOSemi       bool // the IO connection was opened while rpl_semi_sync_slave_enabled=1
	LastIOErrno  int
	LastIOError  string
	LastSQLErrno int
	LastSQLError string
	Relay        []relayEntry
	relaySet     map[txnKey]bool
	ioLast       time.Time
	ioCredit     float64
}

// WriteOutcome of a client write.
type WriteOutcome string

const (
	WPending WriteOutcome = "pending"
	WAcked   WriteOutcome = "acknowledged"
	WRefused WriteOutcome = "refused"
	WUnknown WriteOutcome = "unknown"
)

// WriteRec is one client write of the workload.
type WriteRec struct {
	ID      int
	Host    string
	Txn     Txn
	Outcome WriteOutcome
	At      time.Time
	DoneAt  time.Time
	Why     string
}

type pendingCommit struct {
	Txn     Txn
	Acks    map[string]bool
	Rec     *WriteRec
	Session int
	Killed  bool
	Since   time.Time
}

// MyEvent is a scheduler event.
type MyEvent struct {
	Schema, Name, Definer string
	Disabled              bool // SLAVESIDE_DISABLED
}

// MyHost is the ground truth of one MySQL server.
type MyHost struct {
	Name      string
	UUID      string
	Up        bool
	StartedAt time.Time
	Ver       [3]int
	RO        bool
	SRO       bool
	Offline   bool
	SSPlugin  bool
	SSMaster  bool
	SSSlave   bool
	SSWait    int
	SyncBin   int
	FlushLog  int
	Executed  RefSet
	Binlog    []Txn
	binlogSet map[txnKey]bool
	NextGno   int64
	Chan      *Channel
	Pending   []*pendingCommit
	Events    []MyEvent
	// knobs
	DownloadRate float64       // bytes per second for this host's IO thread (0 = unlimited)
	ApplyDelay   time.Duration // each received transaction becomes applicable this long after receipt
	PoisonSQL    map[txnKey]int
	StopHangs    bool // STOP REPLICA (SQL thread) hangs while the relay log is not empty
	ReplMonTS    time.Time
	HasReplMon   bool
	nextSession  int
}

// Stmt is one statement as it arrived at a fake server.
type Stmt struct {
	Seq      int
	Issuer   string
	Target   string
	Class    string
	Query    string
	At       time.Time
	Mutating bool
	Outcome  string // ok | err:<code> | hang | cut-before | cut-after | refused
	Arg      string
}

// Fault describes an injected failure of the Nth statement of a class.
type Fault struct {
	Issuer string // "" = any
	Target string // "" = any
	Class  string // "" = any
	Nth    int    // fire on the Nth matching statement after arming (1-based)
	Kind   string // err | hang | cut-before | cut-after
	Code   uint16
	Sticky bool // keep firing after the Nth
	seen   int
	Fired  int
}

// MyWorld is all fake MySQL servers plus the network between processes and servers.
type MyWorld struct {
	mu      sync.Mutex
	Hosts   map[string]*MyHost
	Stmts   []Stmt
	Writes  []*WriteRec
	Faults  []*Fault
	Unknown []string // statements the fake did not recognise (a harness calibration failure)
	seq     int
	connSeq uint32
	stopped chan struct{}
	conns   map[net.Conn][2]string // server-side conn -> {issuer, target}
	// reachability
	procDead   map[string]bool    // simulated mysync process is dead
	procHost   map[string]string  // process id -> host it runs on
	isolated   map[string]bool    // host cut from the network (its own mysync still reaches its own server)
	cutPair    map[[2]string]bool // {from-host, to-host} cut (mysync->mysql and replication)
	decoys     map[string]bool    // hosts that exist on the network but are not part of the cluster
	DecoyDials []string
	// hooks, called with the world lock held
	OnStatement func(w *MyWorld, s *Stmt, h *MyHost)               // before the effect of a recognised statement
	AfterStmt   func(w *MyWorld, s *Stmt, h *MyHost)               // after its effect
	OnCall      func(issuer, target, class string, seq int) string // "" or "crash": the issuing process dies at this call
}

func NewMyWorld() *MyWorld {
	return &MyWorld{Hosts: map[string]*MyHost{}, stopped: make(chan struct{}), conns: map[net.Conn][2]string{},
		procDead: map[string]bool{}, procHost: map[string]string{}, isolated: map[string]bool{}, cutPair: map[[2]string]bool{}, decoys: map[string]bool{}}
}

func (w *MyWorld) Lock()   { w.mu.Lock() }
func (w *MyWorld) Unlock() { w.mu.Unlock() }

// AddHost creates a server that has just started: read-only, super-read-only, offline.
func (w *MyWorld) AddHost(name, uuid string, ver [3]int) *MyHost {
	h := &MyHost{Name: name, UUID: uuid, Up: true, StartedAt: time.Now().Add(-time.Hour), Ver: ver, RO: true, SRO: true, Offline: true,
		SSPlugin: true, SSWait: 1, SyncBin: 1, FlushLog: 1, Executed: RefSet{}, binlogSet: map[txnKey]bool{}, NextGno: 1, PoisonSQL: map[txnKey]int{}}
	w.Hosts[name] = h
	return h
}

func (w *MyWorld) SetProc(proc, host string) { w.mu.Lock(); w.procHost[proc] = host; w.mu.Unlock() }
func (w *MyWorld) AddDecoy(name string)      { w.decoys[name] = true }

func (w *MyWorld) sorted() []*MyHost {
	names := make([]string, 0, len(w.Hosts))
	for n := range w.Hosts {
		names = append(names, n)
	}
	sort.Strings(names)
	hs := make([]*MyHost, len(names))
	for i, n := range names {
		hs[i] = w.Hosts[n]
	}
	return hs
}

// ---------------------------------------------------------------- GTID helpers

func gsAdd(s RefSet, uuid string, gno int64) {
	k := RefKey(uuid, "")
	ivs := s[k]
	for i := range ivs {
		if ivs[i].Lo <= gno && gno <= ivs[i].Hi {
			return
		}
		if ivs[i].Hi+1 == gno {
			ivs[i].Hi = gno
			if i+1 < len(ivs) && ivs[i+1].Lo == gno+1 {
				ivs[i].Hi = ivs[i+1].Hi
				s[k] = append(ivs[:i+1], ivs[i+2:]...)
			}
			return
		}
		if ivs[i].Lo-1 == gno {
			ivs[i].Lo = gno
			return
		}
		if gno < ivs[i].Lo {
			s[k] = append(ivs[:i], append([]RefIv{{gno, gno}}, ivs[i:]...)...)
			return
		}
	}
	s[k] = append(ivs, RefIv{gno, gno})
}

func gsHas(s RefSet, uuid string, gno int64) bool { return s.Has(RefKey(uuid, ""), gno) }

func gsCopy(s RefSet) RefSet {
	o := RefSet{}
	for k, v := range s {
		o[k] = append([]RefIv(nil), v...)
	}
	return o
}

func gsUnion(a, b RefSet) RefSet {
	o := gsCopy(a)
	for k, v := range b {
		o[k] = append(o[k], v...)
	}
	return RefNorm(o)
}

// GSubset: a ⊆ b.
func GSubset(a, b RefSet) bool { return RefEmpty(RefMinus(a, b)) }

// Text renders a set on one line as mysqld prints it.
func GText(s RefSet) string { return Render(s, false) }

// Retrieved is the set of received-not-yet-applied transactions.
func (h *MyHost) Retrieved() RefSet {
	s := RefSet{}
	if h.Chan != nil {
		for _, e := range h.Chan.Relay {
			gsAdd(s, e.UUID, e.Gno)
		}
	}
	return s
}

// Holds = executed ∪ received: every transaction this server has durably seen.
func (h *MyHost) Holds() RefSet { return gsUnion(h.Executed, h.Retrieved()) }

// BinlogSet = every transaction in the binary log (executed ∪ waiting for ack).
func (h *MyHost) BinlogSet() RefSet {
	s := gsCopy(h.Executed)
	for _, p := range h.Pending {
		gsAdd(s, p.Txn.UUID, p.Txn.Gno)
	}
	return s
}

func (h *MyHost) has(t Txn) bool {
	if gsHas(h.Executed, t.UUID, t.Gno) {
		return true
	}
	return h.Chan != nil && h.Chan.relaySet[t.key()]
}

func (h *MyHost) logTxn(t Txn) {
	if !h.binlogSet[t.key()] {
		h.binlogSet[t.key()] = true
		h.Binlog = append(h.Binlog, t)
	}
}

// SeedTxns gives the host n executed transactions of uuid starting at gno from (set-up only).
func (h *MyHost) SeedTxns(uuid string, from, n int64, at time.Time, size int64) {
	for g := from; g < from+n; g++ {
		t := Txn{UUID: uuid, Gno: g, Size: size, At: at}
		gsAdd(h.Executed, uuid, g)
		h.logTxn(t)
		if uuid == h.UUID && g >= h.NextGno {
			h.NextGno = g + 1
		}
	}
}

const binlogHeader = 154

func (h *MyHost) binlogSize() int64 {
	n := int64(binlogHeader)
	for _, t := range h.Binlog {
		n += t.Size
	}
	return n
}

// readPos is the offset in src's binary log after the longest prefix this host holds.
func (h *MyHost) readPos(src *MyHost) int64 {
	pos := int64(binlogHeader)
	for _, t := range src.Binlog {
		if !h.has(t) {
			break
		}
		pos += t.Size
	}
	return pos
}

// Writable: a client write would be accepted now.
func (h *MyHost) Writable() bool { return h.Up && !h.RO && !h.Offline }

// CanAck: a client write arriving now would be acknowledged (not left waiting for semi-sync acks).
func (w *MyWorld) CanAck(h *MyHost) bool {
	if !h.Writable() {
		return false
	}
	if !h.SSMaster || h.SSWait <= 0 {
		return true
	}
	n := 0
	for _, r := range w.Hosts {
		if r.Up && r.Chan != nil && r.Chan.Source == h.Name && r.Chan.IODesired && r.Chan.IOConnected && r.Chan.IOSemi && !w.replCut(r.Name, h.Name) {
			n++
		}
	}
	return n >= h.SSWait
}

// ---------------------------------------------------------------- network

func (w *MyWorld) replCut(replica, source string) bool {
	return w.isolated[replica] || w.isolated[source] || w.cutPair[[2]string{replica, source}] || w.cutPair[[2]string{source, replica}]
}

// procCut: the process cannot reach the server (network), local server is always reachable.
func (w *MyWorld) procCut(proc, target string) bool {
	ph := w.procHost[proc]
	if ph == target {
		return false
	}
	return w.isolated[ph] || w.isolated[target] || w.cutPair[[2]string{ph, target}]
}

func (w *MyWorld) Isolate(host string, on bool) {
	w.mu.Lock()
	w.isolated[host] = on
	w.mu.Unlock()
}

func (w *MyWorld) CutPair(from, to string, on bool) {
	w.mu.Lock()
	w.cutPair[[2]string{from, to}] = on
	w.mu.Unlock()
}

// KillProc marks a simulated mysync process dead: its connections are dropped
// and every later call fails.
func (w *MyWorld) KillProc(proc string) {
	w.mu.Lock()
	w.killProcLocked(proc)
	w.mu.Unlock()
}

func (w *MyWorld) killProcLocked(proc string) {
	w.procDead[proc] = true
	for c, it := range w.conns {
		if it[0] == proc {
			c.Close()
			delete(w.conns, c)
		}
	}
}

// Dial is what mysql_driver.RegisterDialContext calls: issuer is derived by the
// caller from the port in addr.
func (w *MyWorld) Dial(ctx context.Context, issuer, target string) (net.Conn, error) {
	w.mu.Lock()
	if w.procDead[issuer] {
		w.mu.Unlock()
		time.Sleep(20 * time.Millisecond) // a dead process's leftover goroutines must not spin at one instant
		return nil, errors.New("process is dead")
	}
	if w.decoys[target] {
		w.DecoyDials = append(w.DecoyDials, issuer+"->"+target)
	}
	h := w.Hosts[target]
	cut := w.procCut(issuer, target)
	up := h != nil && h.Up
	if h == nil && !w.decoys[target] {
		w.mu.Unlock()
		return nil, &net.DNSError{Err: "no such host", Name: target, IsNotFound: true}
	}
	if cut {
		w.mu.Unlock()
		select { // packets are dropped: the connect attempt times out
		case <-ctx.Done():
			return nil, ctx.Err()
		case <-w.stopped:
			return nil, errors.New("world stopped")
		}
	}
	if !up {
		w.mu.Unlock()
		// a refusal takes a round trip: without it a retry loop that does not sleep on
		// errors (performChangeMaster's wait loop) would spin forever at one virtual instant
		time.Sleep(20 * time.Millisecond)
		return nil, fmt.Errorf("dial tcp %s:3306: connect: connection refused", target)
	}
	cl, sv := net.Pipe()
	w.connSeq++
	id := w.connSeq
	w.conns[sv] = [2]string{issuer, target}
	ver := fmt.Sprintf("%d.%d.%d-fake", h.Ver[0], h.Ver[1], h.Ver[2])
	w.mu.Unlock()
	cs := &connState{lockWait: 31536000}
	go func() {
		_ = ServeMySQL(sv, id, ver, func(q string) *Result { return w.handle(issuer, target, cs, q) })
		w.mu.Lock()
		delete(w.conns, sv)
		w.mu.Unlock()
	}()
	return cl, nil
}

// Stop ends the world: all connections are closed and blocked handlers return.
func (w *MyWorld) Stop() {
	w.mu.Lock()
	select {
	case <-w.stopped:
	default:
		close(w.stopped)
	}
	for c := range w.conns {
		c.Close()
	}
	w.mu.Unlock()
}

// ---------------------------------------------------------------- host life cycle

// Crash kills mysqld on host (kill -9).
func (w *MyWorld) Crash(host string) {
	w.mu.Lock()
	defer w.mu.Unlock()
	w.CrashLocked(host)
}

// CrashLocked is Crash for hooks that already hold the world lock.
func (w *MyWorld) CrashLocked(host string) {
	h := w.Hosts[host]
	if h == nil || !h.Up {
		return
	}
	w.settle()
	h.Up = false
	for c, it := range w.conns {
		if it[1] == host {
			c.Close()
			delete(w.conns, c)
		}
	}
	// commits waiting for an acknowledgement: the client connection is gone, outcome unknown
	for _, p := range h.Pending {
		if p.Rec != nil && p.Rec.Outcome == WPending {
			p.Rec.Outcome, p.Rec.DoneAt, p.Rec.Why = WUnknown, time.Now(), "server crashed while waiting for ack"
		}
	}
}

// Start restarts mysqld after a crash: crash recovery commits everything that
// reached the binary log; the server comes up read-only, super-read-only and
// offline (the project's my.cnf); relay logs are discarded (relay_log_recovery).
func (w *MyWorld) Start(host string) {
	w.mu.Lock()
	defer w.mu.Unlock()
	h := w.Hosts[host]
	if h == nil || h.Up {
		return
	}
	h.Up = true
	h.StartedAt = time.Now()
	h.RO, h.SRO, h.Offline = true, true, true
	h.SSMaster, h.SSSlave, h.SSWait = false, false, 1
	for _, p := range h.Pending {
		gsAdd(h.Executed, p.Txn.UUID, p.Txn.Gno)
	}
	h.Pending = nil
	if ch := h.Chan; ch != nil {
		ch.Relay, ch.relaySet = nil, map[txnKey]bool{}
		ch.IOConnected, ch.IOSemi = false, false
		ch.IODesired, ch.SQLDesired = true, true
		ch.LastIOErrno, ch.LastIOError, ch.LastSQLErrno, ch.LastSQLError = 0, "", 0, ""
	}
	w.settle()
}

// Resetup rebuilds host from a backup of master (what the external resetup tool does).
func (w *MyWorld) Resetup(host, master string) bool {
	w.mu.Lock()
	defer w.mu.Unlock()
	h, m := w.Hosts[host], w.Hosts[master]
	if h == nil || m == nil || !m.Up || host == master || w.replCut(host, master) {
		return false
	}
	w.settle()
	for c, it := range w.conns {
		if it[1] == host {
			c.Close()
			delete(w.conns, c)
		}
	}
	h.Up = true
	h.StartedAt = time.Now()
	h.RO, h.SRO, h.Offline = true, true, true
	h.SSMaster, h.SSSlave, h.SSWait = false, false, 1
	h.Executed = gsCopy(m.Executed)
	h.Binlog = append([]Txn(nil), m.Binlog[:0]...)
	h.binlogSet = map[txnKey]bool{}
	for _, t := range m.Binlog {
		if gsHas(m.Executed, t.UUID, t.Gno) {
			h.logTxn(t)
		}
	}
	h.Pending = nil
	h.PoisonSQL = map[txnKey]int{}
	h.Chan = &Channel{Source: master, IODesired: true, SQLDesired: true, relaySet: map[txnKey]bool{}}
	w.settle()
	return true
}

// ---------------------------------------------------------------- replication engine

// Settle brings replication and semi-sync waits up to date with the virtual clock.
func (w *MyWorld) Settle() { w.mu.Lock(); w.settle(); w.mu.Unlock() }

func (w *MyWorld) settle() {
	now := time.Now()
	hs := w.sorted()
	for iter := 0; iter < 64; iter++ {
		changed := false
		for _, h := range hs {
			if !h.Up || h.Chan == nil {
				continue
			}
			if w.stepIO(h, now) {
				changed = true
			}
			if w.stepSQL(h, now) {
				changed = true
			}
		}
		for _, h := range hs {
			if h.Up && w.release(h, now) {
				changed = true
			}
		}
		if !changed {
			return
		}
	}
}

func (w *MyWorld) stepIO(h *MyHost, now time.Time) bool {
	ch := h.Chan
	if !ch.IODesired {
		return false
	}
	changed := false
	src := w.Hosts[ch.Source]
	if src == nil || !src.Up || w.replCut(h.Name, ch.Source) {
		if ch.IOConnected {
			ch.IOConnected, ch.IOSemi = false, false
			changed = true
		}
		if ch.LastIOErrno == 0 {
			ch.LastIOErrno, ch.LastIOError = 2003, "error connecting to source"
			changed = true
		}
		return changed
	}
	if !ch.IOConnected {
		// COM_BINLOG_DUMP_GTID handshake: the source refuses a replica holding
		// transactions of the source's own UUID that the source does not have
		mine := h.Holds()
		own := RefSet{}
		if v, ok := mine[RefKey(src.UUID, "")]; ok {
			own[RefKey(src.UUID, "")] = v
		}
		if !GSubset(own, src.BinlogSet()) {
			ch.IODesired = false
			ch.LastIOErrno = 13114
			if h.Ver[0] == 5 {
				ch.LastIOErrno = 1236
			}
			ch.LastIOError = "Got fatal error 1236 from source: replica has more GTIDs than the source has, using the source's SERVER_UUID"
			return true
		}
		ch.IOConnected = true
		ch.IOSemi = h.SSPlugin && h.SSSlave
		ch.LastIOErrno, ch.LastIOError = 0, ""
		ch.ioLast, ch.ioCredit = now, 0
		changed = true
	}
	limited := h.DownloadRate > 0
	if limited {
		ch.ioCredit += h.DownloadRate * now.Sub(ch.ioLast).Seconds()
	}
	ch.ioLast = now
	fetchedAll := true
	for _, t := range src.Binlog {
		if h.has(t) {
			continue
		}
		if limited && ch.ioCredit < float64(t.Size) {
			fetchedAll = false
			break
		}
		if limited {
			ch.ioCredit -= float64(t.Size)
		}
		ch.Relay = append(ch.Relay, relayEntry{t, now})
		ch.relaySet[t.key()] = true
		changed = true
		if ch.IOSemi {
			for _, p := range src.Pending {
				if p.Txn.key() == t.key() {
					p.Acks[h.Name] = true
				}
			}
		}
	}
	if fetchedAll {
		ch.ioCredit = 0
	}
	return changed
}

func (w *MyWorld) stepSQL(h *MyHost, now time.Time) bool {
	ch := h.Chan
	if !ch.SQLDesired {
		return false
	}
	changed := false
	for len(ch.Relay) > 0 {
		e := ch.Relay[0]
		if now.Sub(e.RecvAt) < h.ApplyDelay {
			break
		}
		if errno := h.PoisonSQL[e.key()]; errno != 0 {
			ch.SQLDesired = false
			ch.LastSQLErrno, ch.LastSQLError = errno, fmt.Sprintf("Worker failed executing transaction '%s:%d', errno %d", e.UUID, e.Gno, errno)
			return true
		}
		if !gsHas(h.Executed, e.UUID, e.Gno) {
			gsAdd(h.Executed, e.UUID, e.Gno)
			h.logTxn(e.Txn)
		}
		ch.Relay = ch.Relay[1:]
		delete(ch.relaySet, e.key())
		changed = true
	}
	return changed
}

// release commits transactions whose semi-sync wait is over.
func (w *MyWorld) release(h *MyHost, now time.Time) bool {
	if len(h.Pending) == 0 {
		return false
	}
	need := 0
	if h.SSMaster {
		need = h.SSWait
	}
	changed := false
	var keep []*pendingCommit
	for _, p := range h.Pending {
		if len(p.Acks) >= need {
			gsAdd(h.Executed, p.Txn.UUID, p.Txn.Gno)
			if p.Rec != nil && p.Rec.Outcome == WPending {
				if p.Killed {
					p.Rec.Outcome, p.Rec.Why = WUnknown, "session killed while waiting for ack"
				} else {
					p.Rec.Outcome = WAcked
				}
				p.Rec.DoneAt = now
			}
			changed = true
		} else {
			keep = append(keep, p)
		}
	}
	h.Pending = keep
	return changed
}

// ClientWrite is one autocommit INSERT by an application user on host.
func (w *MyWorld) ClientWrite(host string, size int64) *WriteRec {
	w.mu.Lock()
	defer w.mu.Unlock()
	w.settle()
	rec := &WriteRec{ID: len(w.Writes) + 1, Host: host, At: time.Now(), Outcome: WRefused}
	w.Writes = append(w.Writes, rec)
	h := w.Hosts[host]
	switch {
	case h == nil || !h.Up:
		rec.Why = "connection refused"
		return rec
	case h.Offline:
		rec.Why = "offline_mode"
		return rec
	case h.RO:
		rec.Why = "read_only"
		return rec
	}
	t := Txn{UUID: h.UUID, Gno: h.NextGno, Size: size, At: time.Now(), W: rec.ID}
	h.NextGno++
	rec.Txn = t
	h.logTxn(t)
	rec.Outcome = WPending
	h.nextSession++
	h.Pending = append(h.Pending, &pendingCommit{Txn: t, Acks: map[string]bool{}, Rec: rec, Session: 1000 + h.nextSession, Since: time.Now()})
	w.settle()
	return rec
}

// ---------------------------------------------------------------- statements

var dropLatency = func() time.Duration {
	if os.Getenv("VERIF_NOLAT") != "" {
		return 0
	}
	return 2 * time.Millisecond
}()

type connState struct {
	lockWait int // seconds
}

var (
	wsRe          = regexp.MustCompile(`\s+`)
	changeRe      = regexp.MustCompile(`(?i)^CHANGE (MASTER|REPLICATION SOURCE) TO (MASTER|SOURCE)_HOST = '([^']*)'`)
	waitCountRe   = regexp.MustCompile(`^SET GLOBAL rpl_semi_sync_master_wait_for_slave_count = '?(-?\d+)'?$`)
	lockWaitRe    = regexp.MustCompile(`^SET SESSION lock_wait_timeout = '?(\d+)'?$`)
	killRe        = regexp.MustCompile(`^KILL '?(\d+)'?$`)
	flushRe       = regexp.MustCompile(`^SET GLOBAL innodb_flush_log_at_trx_commit = '?(\d+)'?$`)
	syncBinRe     = regexp.MustCompile(`^SET GLOBAL sync_binlog = '?(\d+)'?$`)
	eventRe       = regexp.MustCompile("^ALTER DEFINER = '([^']*)'@'([^']*)' EVENT `([^`]*)`.`([^`]*)` ENABLE$")
	replStatusRe  = regexp.MustCompile(`^SHOW (SLAVE|REPLICA) STATUS FOR CHANNEL '([^']*)'$`)
	threadRe      = regexp.MustCompile(`^(STOP|START) (SLAVE|REPLICA)( IO_THREAD| SQL_THREAD)? FOR CHANNEL '([^']*)'$`)
	resetRe       = regexp.MustCompile(`^RESET (SLAVE|REPLICA) ALL FOR CHANNEL '([^']*)'$`)
	procIDsRe     = regexp.MustCompile(`^SELECT ID FROM information_schema.PROCESSLIST p WHERE USER NOT IN \((.*)\) AND COMMAND != 'Killed'$`)
	calcDelayRe   = regexp.MustCompile(`^SELECT FLOOR\(CAST\('([^']*)' AS DECIMAL\(20,3\)\) - UNIX_TIMESTAMP\(ts\)\) AS delay FROM `)
	driverSetRe   = regexp.MustCompile(`(?i)^SET (autocommit|sql_log_off|NAMES|time_zone|sql_mode)`)
	MutatingClass = map[string]bool{"set_ro": true, "set_ro_nosuper": true, "set_writable": true, "stop_replica": true, "start_replica": true,
		"stop_io": true, "start_io": true, "stop_sql": true, "start_sql": true, "reset_replica_all": true, "change_source": true,
		"ss_set_master": true, "ss_set_slave": true, "ss_disable": true, "ss_wait_count": true, "enable_event": true, "kill": true,
		"offline_on": true, "offline_off": true, "set_flush_log": true, "set_sync_binlog": true, "replmon_update": true, "replmon_create": true}
)

func one(name string, typ byte, v any) *Result {
	return &Result{Cols: []Col{{name, typ}}, Rows: [][]any{{v}}}
}

func b01(b bool) string {
	if b {
		return "1"
	}
	return "0"
}

func classify(q string) (class, arg string) {
	switch {
	case q == "SELECT 1 AS Ok":
		return "ping", ""
	case strings.HasPrefix(q, "SELECT sys.version_major()"):
		return "version", ""
	case q == "SELECT @@GLOBAL.gtid_executed as Executed_Gtid_Set":
		return "gtid_executed", ""
	case q == "SELECT @@server_uuid as server_uuid":
		return "uuid", ""
	case q == "SHOW BINARY LOGS":
		return "binary_logs", ""
	case q == "SELECT @@read_only AS ReadOnly, @@super_read_only AS SuperReadOnly":
		return "is_readonly", ""
	case q == "SET GLOBAL super_read_only = 1":
		return "set_ro", ""
	case q == "SET GLOBAL read_only = 1, super_read_only = 0":
		return "set_ro_nosuper", ""
	case q == "SET GLOBAL read_only = 0":
		return "set_writable", ""
	case q == "SET GLOBAL rpl_semi_sync_master_enabled = 1, rpl_semi_sync_slave_enabled = 0":
		return "ss_set_master", ""
	case q == "SET GLOBAL rpl_semi_sync_slave_enabled = 1, rpl_semi_sync_master_enabled = 0":
		return "ss_set_slave", ""
	case q == "SET GLOBAL rpl_semi_sync_slave_enabled = 0, rpl_semi_sync_master_enabled = 0":
		return "ss_disable", ""
	case strings.HasPrefix(q, "SELECT @@rpl_semi_sync_master_enabled AS MasterEnabled,"):
		return "ss_status", ""
	case q == "SET GLOBAL offline_mode = ON":
		return "offline_on", ""
	case q == "SET GLOBAL offline_mode = OFF":
		return "offline_off", ""
	case q == "SELECT @@GLOBAL.offline_mode AS OfflineMode":
		return "get_offline", ""
	case strings.HasPrefix(q, "SELECT count(*) <> 0 AS IsWaiting FROM information_schema.PROCESSLIST"):
		return "waiting_ack", ""
	case strings.HasPrefix(q, "SELECT UNIX_TIMESTAMP(DATE_SUB(now(), INTERVAL variable_value SECOND)) AS LastStartup"):
		return "startup_time", ""
	case strings.HasPrefix(q, "SELECT @@GLOBAL.innodb_flush_log_at_trx_commit as InnodbFlushLogAtTrxCommit"):
		return "get_repl_settings", ""
	case strings.HasPrefix(q, "SELECT EVENT_SCHEMA, EVENT_NAME, DEFINER FROM information_schema.EVENTS"):
		return "list_events", ""
	case strings.HasPrefix(q, "SELECT UNIX_TIMESTAMP(ts) AS ts FROM "):
		return "replmon_get", ""
	case strings.HasPrefix(q, "CREATE TABLE IF NOT EXISTS ") && strings.Contains(q, "ts TIMESTAMP(3)"):
		return "replmon_create", ""
	case strings.HasPrefix(q, "INSERT INTO ") && strings.Contains(q, "ON DUPLICATE KEY UPDATE ts = CURRENT_TIMESTAMP(3)"):
		return "replmon_update", ""
	case driverSetRe.MatchString(q):
		return "driver_set", ""
	}
	if m := replStatusRe.FindStringSubmatch(q); m != nil {
		return "replica_status", m[1] + "|" + m[2]
	}
	if m := threadRe.FindStringSubmatch(q); m != nil {
		op := strings.ToLower(m[1])
		switch strings.TrimSpace(m[3]) {
		case "IO_THREAD":
			return op + "_io", m[2] + "|" + m[4]
		case "SQL_THREAD":
			return op + "_sql", m[2] + "|" + m[4]
		}
		return op + "_replica", m[2] + "|" + m[4]
	}
	if m := resetRe.FindStringSubmatch(q); m != nil {
		return "reset_replica_all", m[1] + "|" + m[2]
	}
	if m := changeRe.FindStringSubmatch(q); m != nil {
		return "change_source", m[3]
	}
	if m := waitCountRe.FindStringSubmatch(q); m != nil {
		return "ss_wait_count", m[1]
	}
	if m := lockWaitRe.FindStringSubmatch(q); m != nil {
		return "lock_wait", m[1]
	}
	if m := killRe.FindStringSubmatch(q); m != nil {
		return "kill", m[1]
	}
	if m := flushRe.FindStringSubmatch(q); m != nil {
		return "set_flush_log", m[1]
	}
	if m := syncBinRe.FindStringSubmatch(q); m != nil {
		return "set_sync_binlog", m[1]
	}
	if m := eventRe.FindStringSubmatch(q); m != nil {
		return "enable_event", m[3] + "." + m[4]
	}
	if m := procIDsRe.FindStringSubmatch(q); m != nil {
		return "process_ids", m[1]
	}
	if m := calcDelayRe.FindStringSubmatch(q); m != nil {
		return "replmon_delay", m[1]
	}
	return "", ""
}

func (w *MyWorld) findFault(issuer, target, class string) *Fault {
	var hit *Fault
	for _, f := range w.Faults {
		if (f.Issuer != "" && f.Issuer != issuer) || (f.Target != "" && f.Target != target) || (f.Class != "" && f.Class != class) {
			continue
		}
		f.seen++
		if hit == nil && (f.seen == f.Nth || (f.Sticky && f.seen > f.Nth)) {
			f.Fired++
			hit = f
		}
	}
	return hit
}

// AddFault arms a fault.
func (w *MyWorld) AddFault(f *Fault) {
	w.mu.Lock()
	w.Faults = append(w.Faults, f)
	w.mu.Unlock()
}

// ClearFaults removes all armed faults.
func (w *MyWorld) ClearFaults() {
	w.mu.Lock()
	w.Faults = nil
	w.mu.Unlock()
}

func (w *MyWorld) hang(max time.Duration) {
	select {
	case <-time.After(max):
	case <-w.stopped:
	}
}

func (w *MyWorld) handle(issuer, target string, cs *connState, raw string) *Result {
	q := strings.TrimSpace(wsRe.ReplaceAllString(raw, " "))
	class, arg := classify(q)
	w.mu.Lock()
	w.seq++
	st := Stmt{Seq: w.seq, Issuer: issuer, Target: target, Class: class, Query: q, At: time.Now(), Mutating: MutatingClass[class], Arg: arg}
	finish := func(outcome string, r *Result) *Result {
		st.Outcome = outcome
		w.Stmts = append(w.Stmts, st)
		w.mu.Unlock()
		return r
	}
	if w.procDead[issuer] {
		r := finish("dead", &Result{Drop: true})
		time.Sleep(dropLatency)
		return r
	}
	h := w.Hosts[target]
	if h == nil || !h.Up {
		r := finish("refused", &Result{Drop: true})
		time.Sleep(dropLatency)
		return r
	}
	if class == "" {
		w.Unknown = append(w.Unknown, q)
		return finish("err:1064", ErrResult(1064, "fake server: statement not recognised: "+q))
	}
	if class == "driver_set" {
		return finish("ok", nil)
	}
	if w.OnCall != nil && w.OnCall(issuer, target, class, st.Seq) == "crash" {
		w.killProcLocked(issuer)
		return finish("issuer-crashed", &Result{Drop: true})
	}
	if w.procCut(issuer, target) {
		// established connection, packets now dropped: nothing comes back
		st.Outcome = "hang"
		w.Stmts = append(w.Stmts, st)
		w.mu.Unlock()
		w.hang(150 * time.Second)
		return &Result{Drop: true}
	}
	w.settle()
	if f := w.findFault(issuer, target, class); f != nil {
		switch f.Kind {
		case "err":
			r := finish(fmt.Sprintf("err:%d", f.Code), ErrResult(f.Code, "injected error"))
			time.Sleep(2 * time.Millisecond) // see Dial: error answers take time too
			return r
		case "hang":
			st.Outcome = "hang"
			w.Stmts = append(w.Stmts, st)
			w.mu.Unlock()
			w.hang(150 * time.Second)
			return &Result{Drop: true}
		case "cut-before":
			r := finish("cut-before", &Result{Drop: true})
			time.Sleep(dropLatency)
			return r
		case "cut-after":
			if w.OnStatement != nil {
				w.OnStatement(w, &st, h)
			}
			w.apply(h, cs, &st, class, arg)
			if w.AfterStmt != nil {
				w.AfterStmt(w, &st, h)
			}
			r := finish("cut-after", &Result{Drop: true})
			time.Sleep(dropLatency)
			return r
		}
	}
	if w.OnStatement != nil {
		w.OnStatement(w, &st, h)
	}
	// statements that may have to wait are handled outside the generic path
	switch class {
	case "set_ro", "set_ro_nosuper":
		waited := 0.0
		for len(h.Pending) > 0 && h.Up {
			// SET GLOBAL read_only waits for commits in flight (here: commits waiting for a semi-sync ack)
			if waited >= float64(cs.lockWait) {
				return finish("err:1205", ErrResult(1205, "Lock wait timeout exceeded; try restarting transaction"))
			}
			w.mu.Unlock()
			select {
			case <-time.After(200 * time.Millisecond):
			case <-w.stopped:
				w.mu.Lock()
				return finish("stopped", &Result{Drop: true})
			}
			waited += 0.2
			w.mu.Lock()
			w.settle()
		}
		if !h.Up {
			return finish("refused", &Result{Drop: true})
		}
	case "stop_replica", "stop_sql":
		if h.StopHangs && h.Chan != nil && len(h.Chan.Relay) > 0 {
			st.Outcome = "hang"
			w.Stmts = append(w.Stmts, st)
			w.mu.Unlock()
			w.hang(150 * time.Second)
			return &Result{Drop: true}
		}
	}
	r := w.apply(h, cs, &st, class, arg)
	w.settle()
	if w.AfterStmt != nil {
		w.AfterStmt(w, &st, h)
	}
	out := "ok"
	if r != nil && r.ErrNo != 0 {
		out = fmt.Sprintf("err:%d", r.ErrNo)
	}
	return finish(out, r)
}

func yn(b bool) string {
	if b {
		return "Yes"
	}
	return "No"
}

func (w *MyWorld) apply(h *MyHost, cs *connState, st *Stmt, class, arg string) *Result {
	now := time.Now()
	// dialects: old (5.7, < 8.0.22) knows only SLAVE/MASTER, 8.0.22-8.3 both, >= 8.4 only REPLICA/SOURCE
	oldDialect := h.Ver[0] < 8 || (h.Ver[0] == 8 && h.Ver[1] == 0 && h.Ver[2] < 22)
	newDialect := h.Ver[0] > 8 || (h.Ver[0] == 8 && h.Ver[1] >= 4)
	chanOK := func(a string) (*Channel, *Result) {
		p := strings.SplitN(a, "|", 2)
		if (p[0] == "REPLICA" && oldDialect) || (p[0] == "SLAVE" && newDialect) {
			return nil, ErrResult(1064, "You have an error in your SQL syntax near '"+p[0]+"'")
		}
		if len(p) == 2 && p[1] != "" {
			return nil, ErrResult(3074, "Replication channel '"+p[1]+"' does not exist.")
		}
		return h.Chan, nil
	}
	switch class {
	case "ping":
		return one("Ok", TInt, "1")
	case "version":
		return &Result{Cols: []Col{{"MajorVersion", TInt}, {"MinorVersion", TInt}, {"PatchVersion", TInt}},
			Rows: [][]any{{strconv.Itoa(h.Ver[0]), strconv.Itoa(h.Ver[1]), strconv.Itoa(h.Ver[2])}}}
	case "gtid_executed":
		return one("Executed_Gtid_Set", TStr, GText(h.Executed))
	case "uuid":
		return one("server_uuid", TStr, h.UUID)
	case "binary_logs":
		return &Result{Cols: []Col{{"Log_name", TStr}, {"File_size", TInt}, {"Encrypted", TStr}}, Rows: [][]any{{"mysql-bin-log.000001", strconv.FormatInt(h.binlogSize(), 10), "No"}}}
	case "is_readonly":
		return &Result{Cols: []Col{{"ReadOnly", TInt}, {"SuperReadOnly", TInt}}, Rows: [][]any{{b01(h.RO), b01(h.SRO)}}}
	case "set_ro":
		h.RO, h.SRO = true, true
	case "set_ro_nosuper":
		h.RO, h.SRO = true, false
	case "set_writable":
		h.RO, h.SRO = false, false
	case "get_offline":
		return one("OfflineMode", TInt, b01(h.Offline))
	case "offline_on":
		h.Offline = true
		for _, p := range h.Pending { // non-super sessions are disconnected; a commit waiting for ack keeps waiting
			p.Killed = true
		}
	case "offline_off":
		h.Offline = false
	case "ss_status":
		if !h.SSPlugin {
			return ErrResult(1193, "Unknown system variable 'rpl_semi_sync_master_enabled'")
		}
		return &Result{Cols: []Col{{"MasterEnabled", TInt}, {"SlaveEnabled", TInt}, {"WaitSlaveCount", TInt}},
			Rows: [][]any{{b01(h.SSMaster), b01(h.SSSlave), strconv.Itoa(h.SSWait)}}}
	case "ss_set_master", "ss_set_slave", "ss_disable", "ss_wait_count":
		if !h.SSPlugin {
			return ErrResult(1193, "Unknown system variable 'rpl_semi_sync_master_enabled'")
		}
		switch class {
		case "ss_set_master":
			h.SSMaster, h.SSSlave = true, false
		case "ss_set_slave":
			h.SSMaster, h.SSSlave = false, true
		case "ss_disable":
			h.SSMaster, h.SSSlave = false, false
		case "ss_wait_count":
			n, _ := strconv.Atoi(arg)
			if n < 1 {
				return ErrResult(1231, "Variable 'rpl_semi_sync_master_wait_for_slave_count' can't be set to the value of '"+arg+"'")
			}
			h.SSWait = n
		}
	case "waiting_ack":
		n := 0
		for _, p := range h.Pending {
			_ = p
			n++
		}
		return one("IsWaiting", TInt, b01(n > 0))
	case "startup_time":
		return one("LastStartup", TDbl, strconv.FormatInt(h.StartedAt.Unix(), 10))
	case "get_repl_settings":
		return &Result{Cols: []Col{{"InnodbFlushLogAtTrxCommit", TInt}, {"SyncBinlog", TInt}}, Rows: [][]any{{strconv.Itoa(h.FlushLog), strconv.Itoa(h.SyncBin)}}}
	case "set_flush_log":
		h.FlushLog, _ = strconv.Atoi(arg)
	case "set_sync_binlog":
		h.SyncBin, _ = strconv.Atoi(arg)
	case "list_events":
		r := &Result{Cols: []Col{{"EVENT_SCHEMA", TStr}, {"EVENT_NAME", TStr}, {"DEFINER", TStr}}, Rows: [][]any{}}
		for _, e := range h.Events {
			if e.Disabled {
				r.Rows = append(r.Rows, []any{e.Schema, e.Name, e.Definer})
			}
		}
		return r
	case "enable_event":
		if h.SRO {
			return ErrResult(1290, "The MySQL server is running with the --super-read-only option so it cannot execute this statement")
		}
		for i := range h.Events {
			if h.Events[i].Schema+"."+h.Events[i].Name == arg {
				h.Events[i].Disabled = false
			}
		}
	case "lock_wait":
		cs.lockWait, _ = strconv.Atoi(arg)
	case "process_ids":
		r := &Result{Cols: []Col{{"ID", TInt}}, Rows: [][]any{}}
		if !strings.Contains(arg, "'client'") {
			for _, p := range h.Pending {
				if !p.Killed {
					r.Rows = append(r.Rows, []any{strconv.Itoa(p.Session)})
				}
			}
		}
		return r
	case "kill":
		id, _ := strconv.Atoi(arg)
		found := false
		for _, p := range h.Pending {
			if p.Session == id {
				p.Killed, found = true, true
			}
		}
		if !found {
			return ErrResult(1094, "Unknown thread id: "+arg)
		}
	case "replica_status":
		ch, er := chanOK(arg)
		if er != nil {
			return er
		}
		return w.replicaStatus(h, ch, strings.HasPrefix(arg, "REPLICA"), now)
	case "stop_replica", "stop_io", "stop_sql", "start_replica", "start_io", "start_sql":
		ch, er := chanOK(arg)
		if er != nil {
			return er
		}
		if ch == nil {
			if strings.HasPrefix(class, "start") {
				return ErrResult(1200, "The server is not configured as replica; fix in config file or with CHANGE REPLICATION SOURCE TO")
			}
			return nil // STOP on a server without channel: OK with a warning
		}
		on := strings.HasPrefix(class, "start")
		if class == "start_replica" || class == "start_io" || class == "stop_replica" || class == "stop_io" {
			if ch.IODesired != on {
				ch.IODesired = on
				ch.IOConnected, ch.IOSemi = false, false
				if on {
					ch.LastIOErrno, ch.LastIOError = 0, ""
				}
			}
		}
		if class == "start_replica" || class == "start_sql" || class == "stop_replica" || class == "stop_sql" {
			if ch.SQLDesired != on {
				ch.SQLDesired = on
				if on {
					ch.LastSQLErrno, ch.LastSQLError = 0, ""
				}
			}
		}
	case "reset_replica_all":
		ch, er := chanOK(arg)
		if er != nil {
			return er
		}
		if ch == nil {
			return nil
		}
		if ch.IODesired || ch.SQLDesired {
			return ErrResult(3081, "This operation cannot be performed with running replication threads; run STOP REPLICA FOR CHANNEL '' first")
		}
		h.Chan = nil
	case "change_source":
		if h.Chan != nil && (h.Chan.IODesired || h.Chan.SQLDesired) {
			return ErrResult(3081, "This operation cannot be performed with running replication threads; run STOP REPLICA FOR CHANNEL '' first")
		}
		if src := strings.HasPrefix(st.Query, "CHANGE REPLICATION SOURCE"); (src && oldDialect) || (!src && newDialect) {
			return ErrResult(1064, "You have an error in your SQL syntax near 'CHANGE'")
		}
		// a change of the source purges the relay log: received-unapplied transactions are refetched
		h.Chan = &Channel{Source: arg, relaySet: map[txnKey]bool{}}
	case "replmon_get":
		if !h.HasReplMon {
			return ErrResult(1146, "Table 'mysql.mysync_repl_mon' doesn't exist")
		}
		return one("ts", TStr, fmt.Sprintf("%.3f", float64(h.ReplMonTS.UnixMilli())/1000))
	case "replmon_delay":
		if !h.HasReplMon {
			return ErrResult(1146, "Table 'mysql.mysync_repl_mon' doesn't exist")
		}
		ts, _ := strconv.ParseFloat(arg, 64)
		return one("delay", TInt, strconv.FormatInt(int64(ts-float64(h.ReplMonTS.UnixMilli())/1000), 10))
	case "replmon_create":
		if h.SRO {
			return ErrResult(1290, "The MySQL server is running with the --super-read-only option so it cannot execute this statement")
		}
		h.HasReplMon = true
	case "replmon_update":
		if !h.HasReplMon {
			return ErrResult(1146, "Table 'mysql.mysync_repl_mon' doesn't exist")
		}
		if !h.RO {
			h.ReplMonTS = now
		}
	}
	return nil
}

func (w *MyWorld) replicaStatus(h *MyHost, ch *Channel, replicaWords bool, now time.Time) *Result {
	names := []string{"Master_Host", "Master_Port", "Master_Log_File", "Read_Master_Log_Pos", "Slave_IO_Running", "Slave_SQL_Running", "Last_Error",
		"Retrieved_Gtid_Set", "Executed_Gtid_Set", "Last_IO_Errno", "Last_IO_Error", "Last_SQL_Errno", "Seconds_Behind_Master", "Channel_Name"}
	if replicaWords {
		names = []string{"Source_Host", "Source_Port", "Source_Log_File", "Read_Source_Log_Pos", "Replica_IO_Running", "Replica_SQL_Running", "Last_Error",
			"Retrieved_Gtid_Set", "Executed_Gtid_Set", "Last_IO_Errno", "Last_IO_Error", "Last_SQL_Errno", "Seconds_Behind_Source", "Channel_Name"}
	}
	r := &Result{}
	for _, n := range names {
		r.Cols = append(r.Cols, Col{n, TStr})
	}
	r.Rows = [][]any{}
	if ch == nil {
		return r
	}
	io := "No"
	if ch.IODesired {
		io = "Connecting"
		if ch.IOConnected {
			io = "Yes"
		}
	}
	pos := int64(binlogHeader)
	if src := w.Hosts[ch.Source]; src != nil {
		pos = h.readPos(src)
	}
	var lag any
	switch {
	case !ch.SQLDesired:
		lag = nil
	case len(ch.Relay) == 0 && io != "Yes":
		lag = nil
	case len(ch.Relay) == 0:
		lag = "0"
	default:
		d := int64(now.Sub(ch.Relay[0].At).Seconds())
		if d < 0 {
			d = 0
		}
		lag = strconv.FormatInt(d, 10)
	}
	lastErr := ch.LastSQLError
	r.Rows = append(r.Rows, []any{ch.Source, "3306", "mysql-bin-log.000001", strconv.FormatInt(pos, 10), io, yn(ch.SQLDesired), lastErr,
		GText(h.Retrieved()), GText(h.Executed), strconv.Itoa(ch.LastIOErrno), ch.LastIOError, strconv.Itoa(ch.LastSQLErrno), lag, ""})
	return r
}

// StmtsSince returns a copy of the statement log from index i.
func (w *MyWorld) StmtsSince(i int) []Stmt {
	w.mu.Lock()
	defer w.mu.Unlock()
	if i > len(w.Stmts) {
		i = len(w.Stmts)
	}
	return append([]Stmt(nil), w.Stmts[i:]...)
}

func (w *MyWorld) StmtLen() int { w.mu.Lock(); defer w.mu.Unlock(); return len(w.Stmts) }

// NewChannel builds a replication channel towards src; running starts both threads.
func NewChannel(src string, running bool) *Channel {
	return &Channel{Source: src, IODesired: running, SQLDesired: running, relaySet: map[txnKey]bool{}}
}

// SettleLocked is Settle for callers that already hold the world lock.
func (w *MyWorld) SettleLocked() { w.settle() }

// ---- set-up helpers for constructed histories (call with the world lock held or before the daemons run)

// ResetData empties the host's transaction history.
func (h *MyHost) ResetData() {
	h.Executed, h.Binlog, h.binlogSet, h.Pending, h.NextGno = RefSet{}, nil, map[txnKey]bool{}, nil, 1
	if h.Chan != nil {
		h.Chan.Relay, h.Chan.relaySet = nil, map[txnKey]bool{}
	}
}

// AddExecuted records t as executed (and binlogged) on the host.
func (h *MyHost) AddExecuted(t Txn) {
	gsAdd(h.Executed, t.UUID, t.Gno)
	h.logTxn(t)
	if t.UUID == h.UUID && t.Gno >= h.NextGno {
		h.NextGno = t.Gno + 1
	}
}

// AddRelay records t as received but not yet applied.
func (h *MyHost) AddRelay(t Txn, recvAt time.Time) {
	if h.Chan == nil || h.has(t) {
		return
	}
	h.Chan.Relay = append(h.Chan.Relay, relayEntry{t, recvAt})
	h.Chan.relaySet[t.key()] = true
}

// ProcCut reports (world lock held) whether proc cannot reach target's server over the network.
func (w *MyWorld) ProcCut(proc, target string) bool { return w.procCut(proc, target) }

// HasExecuted reports whether the host has executed uuid:gno.
func (h *MyHost) HasExecuted(uuid string, gno int64) bool { return gsHas(h.Executed, uuid, gno) }

// Poison makes the SQL thread of the host fail with errno when it reaches transaction uuid:gno.
func (h *MyHost) Poison(uuid string, gno int64, errno int) { h.PoisonSQL[txnKey{uuid, gno}] = errno }

// Cure removes a poison.
func (h *MyHost) Cure(uuid string, gno int64) { delete(h.PoisonSQL, txnKey{uuid, gno}) }

// PoisonSQL2Clear removes every poison of the host.
func (h *MyHost) PoisonSQL2Clear() { h.PoisonSQL = map[txnKey]int{} }

// OpenConns is the number of client connections currently open at the fake servers.
func (w *MyWorld) OpenConns() int { w.mu.Lock(); defer w.mu.Unlock(); return len(w.conns) }
