//go:build verif

package verifsim

import (
	"fmt"
	"sort"
	"strings"

	gomysql "github.com/go-mysql-org/go-mysql/mysql"
)

// ---- reference model: a GTID set is a list of closed intervals per "uuid|tag" key,
// possibly unsorted and overlapping; all questions are answered by membership tests
// on the elementary segments between interval end points.

var GTIDUUIDs = []string{
	"00000000-0000-0000-0000-00000000000a",
	"00000000-0000-0000-0000-00000000000b",
	"00000000-0000-0000-0000-00000000000c",
}
var GTIDTags = []string{"", "tg", "z_9"}

type RefIv struct{ Lo, Hi int64 } // closed
type RefSet map[string][]RefIv

func RefKey(u, tag string) string { return u + "|" + tag }

func (r RefSet) Has(key string, x int64) bool {
	for _, iv := range r[key] {
		if iv.Lo <= x && x <= iv.Hi {
			return true
		}
	}
	return false
}

// RefMinus returns a \ b as normalised closed intervals per key.
func RefMinus(a, b RefSet) RefSet {
	out := RefSet{}
	for key, ivs := range a {
		var pts []int64
		for _, iv := range ivs {
			pts = append(pts, iv.Lo, iv.Hi+1)
		}
		for _, iv := range b[key] {
			pts = append(pts, iv.Lo, iv.Hi+1)
		}
		sort.Slice(pts, func(i, j int) bool { return pts[i] < pts[j] })
		var res []RefIv
		for i := 0; i+1 < len(pts); i++ {
			lo, hi := pts[i], pts[i+1]-1
			if lo > hi {
				continue
			}
			if a.Has(key, lo) && !b.Has(key, lo) {
				if n := len(res); n > 0 && res[n-1].Hi+1 == lo {
					res[n-1].Hi = hi
				} else {
					res = append(res, RefIv{lo, hi})
				}
			}
		}
		if len(res) > 0 {
			out[key] = res
		}
	}
	return out
}

func RefEmpty(r RefSet) bool { return len(r) == 0 }

func RefEqual(a, b RefSet) bool { return RefEmpty(RefMinus(a, b)) && RefEmpty(RefMinus(b, a)) }

func RefNorm(a RefSet) RefSet { return RefMinus(a, RefSet{}) }

func (r RefSet) String() string {
	n := RefNorm(r)
	var keys []string
	for k := range n {
		keys = append(keys, k)
	}
	sort.Strings(keys)
	var sb strings.Builder
	for _, k := range keys {
		fmt.Fprintf(&sb, "%s%v ", k, n[k])
	}
	return sb.String()
}

// FromLib converts a parsed library set into the reference representation.
func FromLib(g gomysql.GTIDSet) RefSet {
	out := RefSet{}
	for u, tm := range *g.(*gomysql.MysqlGTIDSet) {
		for tag, ivs := range tm {
			for _, iv := range ivs {
				out[RefKey(u.String(), tag.String())] = append(out[RefKey(u.String(), tag.String())], RefIv{iv.Start, iv.Stop - 1})
			}
		}
	}
	return out
}

// Render prints the set the way MySQL does (sorted, merged, ",\n" between UUIDs)
// or, when messy, with the intervals exactly as given (unsorted, overlapping,
// UUID repeated once per key).
func Render(r RefSet, messy bool) string {
	src := r
	if !messy {
		src = RefNorm(r)
	}
	byUUID := map[string]map[string][]RefIv{}
	for key, ivs := range src {
		p := strings.SplitN(key, "|", 2)
		if byUUID[p[0]] == nil {
			byUUID[p[0]] = map[string][]RefIv{}
		}
		byUUID[p[0]][p[1]] = ivs
	}
	var us []string
	for u := range byUUID {
		us = append(us, u)
	}
	sort.Strings(us)
	ivstr := func(ivs []RefIv) string {
		var sb strings.Builder
		for _, iv := range ivs {
			if iv.Lo == iv.Hi {
				fmt.Fprintf(&sb, ":%d", iv.Lo)
			} else {
				fmt.Fprintf(&sb, ":%d-%d", iv.Lo, iv.Hi)
			}
		}
		return sb.String()
	}
	var parts []string
	for _, u := range us {
		var tags []string
		for t := range byUUID[u] {
			tags = append(tags, t)
		}
		sort.Strings(tags)
		if messy {
			for i := len(tags) - 1; i >= 0; i-- { // one part per key, reverse order
				t := tags[i]
				if t == "" {
					parts = append(parts, u+ivstr(byUUID[u][t]))
				} else {
					parts = append(parts, u+":"+t+ivstr(byUUID[u][t]))
				}
			}
			continue
		}
		s := u
		for _, t := range tags {
			if t != "" {
				s += ":" + t
			}
			s += ivstr(byUUID[u][t])
		}
		parts = append(parts, s)
	}
	if messy {
		return strings.Join(parts, ", ")
	}
	return strings.Join(parts, ",\n")
}

func GenRefSet(c *Case, name string, messy bool) RefSet {
	r := RefSet{}
	nk := c.Src.Int(name+".keys", 0, 4)
	for k := 0; k < nk; k++ {
		u := GTIDUUIDs[c.Src.Int(name+".uuid", 0, 2)]
		tag := GTIDTags[0]
		if c.Src.Int(name+".tagged", 0, 3) == 0 {
			tag = GTIDTags[c.Src.Int(name+".tag", 1, 2)]
		}
		ni := c.Src.Int(name+".intervals", 1, 6)
		var base int64 = 1
		if c.Src.Int(name+".big", 0, 5) == 0 {
			base = c.Src.Int64(name+".base", 1, 1<<40)
		}
		pos := base
		for i := 0; i < ni; i++ {
			if messy && c.Src.Int(name+".jumpback", 0, 3) == 0 {
				pos = base + int64(c.Src.Int(name+".back", 0, 12))
			} else {
				pos += int64(c.Src.Int(name+".gap", 1, 4))
			}
			ln := int64(c.Src.Int(name+".len", 1, 5))
			r[RefKey(u, tag)] = append(r[RefKey(u, tag)], RefIv{pos, pos + ln - 1})
			pos += ln
		}
	}
	return r
}

// Derive builds a set related to base (subset / superset / mixed) so that
// inclusion chains and near-misses are frequent rather than accidental.
func Derive(c *Case, base RefSet, name string) RefSet {
	mode := c.Src.Pick(name+".relation", "independent", "equal", "drop", "extend", "drop+extend")
	if mode == "independent" {
		return GenRefSet(c, name, false)
	}
	out := RefSet{}
	nb := RefNorm(base)
	var keys []string
	for k := range nb {
		keys = append(keys, k)
	}
	sort.Strings(keys) // draws must not depend on map iteration order
	for _, k := range keys {
		for _, iv := range nb[k] {
			lo, hi := iv.Lo, iv.Hi
			if strings.Contains(mode, "drop") && c.Src.Int(name+".dropwhat", 0, 2) == 0 {
				switch c.Src.Pick(name+".drop", "all", "head", "tail", "middle") {
				case "all":
					continue
				case "head":
					lo++
				case "tail":
					hi--
				case "middle":
					if hi-lo >= 2 {
						out[k] = append(out[k], RefIv{lo, lo})
						lo += 2
					}
				}
				if lo > hi {
					continue
				}
			}
			if strings.Contains(mode, "extend") && c.Src.Int(name+".extwhat", 0, 2) == 0 {
				hi += int64(c.Src.Int(name+".ext", 1, 3))
			}
			out[k] = append(out[k], RefIv{lo, hi})
		}
	}
	if strings.Contains(mode, "extend") && c.Src.Bool(name+".newkey") {
		for k, v := range GenRefSet(c, name+".extra", false) {
			out[k] = append(out[k], v...) // no draws inside this loop
		}
	}
	return out
}
