//go:build verif

package verifsim

import (
	"testing"
	"testing/synctest"
)

// syncTestPlain runs f in a synctest bubble (replay path, no rapid) and
// re-raises a panic of f in the caller's goroutine.
func syncTestPlain(t *testing.T, f func()) {
	var pv any
	synctest.Test(t, func(*testing.T) {
		defer func() { pv = recover() }()
		f()
	})
	if pv != nil {
		panic(pv)
	}
}
