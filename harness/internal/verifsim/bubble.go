//go:build verif

package verifsim

import (
	"runtime"
	"strings"
	"testing"
	"testing/synctest"
)

// syncTestPlain runs f in a synctest bubble (replay path, no rapid) and
// re-raises a panic of f in the caller's goroutine.
func syncTestPlain(t *testing.T, f func()) {
	var pv any
	synctest.Test(t, func(*testing.T) {
		defer func() { pv = recover() }()
		f()
	})
	if pv != nil {
		panic(pv)
	}
}

// DurablyBlocked returns the stacks of bubble goroutines that are durably
// blocked right now (excluding the caller). Used at the end of a case to turn
// synctest's opaque "blocked goroutines remain" into a readable report.
func DurablyBlocked() []string {
	buf := make([]byte, 1<<20)
	n := runtime.Stack(buf, true)
	var out []string
	for _, g := range strings.Split(string(buf[:n]), "\n\n") {
		first, _, _ := strings.Cut(g, "\n")
		if strings.Contains(first, "(durable)") && !strings.Contains(g, "internal/synctest.Run(") && !strings.Contains(g, "testing/synctest.testingSynctestTest(") {
			out = append(out, g)
		}
	}
	return out
}
