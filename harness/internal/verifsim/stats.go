//go:build verif

package verifsim

import (
	"bufio"
	"encoding/binary"
	"encoding/json"
	"fmt"
	"hash/fnv"
	"os"
	"runtime"
	"sort"
	"strconv"
	"strings"
	"sync"
	"sync/atomic"
	"testing"
	"time"

	"pgregory.net/rapid"
)

// ViolationRec is a property violation with everything needed to replay it.
type ViolationRec struct {
	Property string   `json:"property"`
	Test     string   `json:"test"`
	Sig      string   `json:"sig"`
	Message  string   `json:"message"`
	Script   []Draw   `json:"script"`
	Trace    []string `json:"trace,omitempty"`
}

type knownFinding struct {
	Property string `json:"property"`
	Sig      string `json:"sig"`
	What     string `json:"what"`
	Replay   string `json:"replay"`
}

// Stats collects what one test function covered; it is written as JSON to
// $VERIF_OUT.<test>.json when the test ends (also after a failure).
type Stats struct {
	mu          sync.Mutex
	Property    string
	Test        string
	Rule        string
	Assumptions []string
	Exhaustive  bool
	Extra       map[string]any

	cases      int
	nontrivial int
	enumDist   int // distinct non-trivial cases counted by construction (enumerations visit each tuple once)
	classes    map[string]int
	hashes     map[uint64]struct{}
	samples    []any
	trivSample any
	last       *ViolationRec
	failed     bool
	known      map[string]knownFinding
	knownHits  map[string]int
	replay     *ViolationRec
	t          *testing.T
	progress   atomic.Int64
}

// Progress tells the watchdog that the current case is alive.
func (s *Stats) Progress() { s.progress.Add(1) }

type abandonCase struct{}
type replayFail struct{ msg string }

// Case is one generated case.
type Case struct {
	S          *Stats
	Src        Src
	RT         *rapid.T
	draws      []Draw
	classes    map[string]struct{}
	nontrivial bool
	sample     any
	trace      []string
	counted    bool
	flight     *os.File
}

func NewStats(t *testing.T, property string) *Stats {
	s := &Stats{Property: property, Test: t.Name(), classes: map[string]int{}, hashes: map[uint64]struct{}{},
		known: map[string]knownFinding{}, knownHits: map[string]int{}, Extra: map[string]any{}, t: t}
	if p := os.Getenv("VERIF_KNOWN"); p != "" {
		if f, err := os.Open(p); err == nil {
			sc := bufio.NewScanner(f)
			sc.Buffer(make([]byte, 1<<20), 1<<20)
			for sc.Scan() {
				line := strings.TrimSpace(sc.Text())
				if !strings.HasPrefix(line, "{") {
					continue
				}
				var k knownFinding
				if json.Unmarshal([]byte(line), &k) == nil && k.Property == property && k.Sig != "" {
					s.known[k.Sig] = k
				}
			}
			f.Close()
		}
	}
	if p := os.Getenv("VERIF_REPLAY"); p != "" {
		b, err := os.ReadFile(p)
		if err != nil {
			t.Fatalf("cannot read replay file: %v", err)
		}
		var v ViolationRec
		if err := json.Unmarshal(b, &v); err != nil {
			t.Fatalf("cannot parse replay file: %v", err)
		}
		s.replay = &v
	}
	t.Cleanup(s.write)
	return s
}

// Cases returns the case budget for this run (VERIF_CASES, else def).
func Cases(def int) int {
	if v, err := strconv.Atoi(os.Getenv("VERIF_CASES")); err == nil && v > 0 {
		return v
	}
	return def
}

func Tier() string {
	if os.Getenv("VERIF_TIER") == "thorough" {
		return "thorough"
	}
	return "quick"
}

// Replaying reports whether this process replays a saved script.
func (s *Stats) Replaying() bool { return s.replay != nil }

func (s *Stats) newCase(rt *rapid.T) *Case {
	c := &Case{S: s, RT: rt, classes: map[string]struct{}{}}
	s.mu.Lock()
	c.counted = !s.failed
	s.mu.Unlock()
	return c
}

func (c *Case) record(label string, v any) {
	c.draws = append(c.draws, Draw{label, v})
}

// Class labels the case for the distribution histogram.
func (c *Case) Class(name string) { c.classes[name] = struct{}{} }

// NonTrivial marks the case as non-trivial by the property's stated rule.
func (c *Case) NonTrivial() { c.nontrivial = true }

// Sample sets a readable description of the case for the evidence file.
func (c *Case) Sample(v any) { c.sample = v }

// Tracef appends a line to the event trace kept with a violation.
func (c *Case) Tracef(format string, args ...any) {
	c.S.mu.Lock()
	if len(c.trace) < 4000 {
		c.trace = append(c.trace, fmt.Sprintf(format, args...))
	}
	c.S.mu.Unlock()
}

// Script returns a copy of the draws so far.
func (c *Case) Script() []Draw { return append([]Draw(nil), c.draws...) }

// Flight writes the draws so far to $VERIF_FLIGHT so that a process death
// inside code under test still leaves the script behind.
func (c *Case) Flight() {
	p := os.Getenv("VERIF_FLIGHT")
	if p == "" {
		return
	}
	b, _ := json.Marshal(ViolationRec{Property: c.S.Property, Test: c.S.Test, Sig: "process-death", Script: c.draws})
	_ = os.WriteFile(p, b, 0o644)
}

// Known reports whether sig is a listed known finding (without counting it).
func (c *Case) Known(sig string) bool { _, ok := c.S.known[sig]; return ok }

// Violation records a violation of the property. A listed known finding is
// counted and the case abandoned; anything else fails the case.
func (c *Case) Violation(sig, format string, args ...any) {
	msg := fmt.Sprintf(format, args...)
	s := c.S
	if os.Getenv("VERIF_PANIC_IS_VIOLATION") != "" && !strings.HasPrefix(sig, "c20-") && !strings.HasPrefix(sig, "harness-") {
		// this history is being re-run for the C20 check: what its own property says about it is
		// that property's business (and its known findings are listed there)
		c.Class("other-property-verdict-ignored")
		panic(abandonCase{})
	}
	s.mu.Lock()
	if _, ok := s.known[sig]; ok {
		s.knownHits[sig]++
		s.mu.Unlock()
		c.Class("known-finding:" + sig)
		panic(abandonCase{})
	}
	s.last = &ViolationRec{Property: s.Property, Test: s.Test, Sig: sig, Message: msg,
		Script: append([]Draw(nil), c.draws...), Trace: append([]string(nil), c.trace...)}
	s.failed = true
	s.mu.Unlock()
	if c.RT != nil {
		c.RT.Fatalf("VIOLATION %s sig=%s: %s", s.Property, sig, msg)
	}
	panic(replayFail{msg})
}

func (c *Case) finish() {
	s := c.S
	s.mu.Lock()
	defer s.mu.Unlock()
	if !c.counted || s.failed {
		return
	}
	s.cases++
	for k := range c.classes {
		s.classes[k]++
	}
	sample := c.sample
	if sample == nil {
		d := c.draws
		if len(d) > 80 {
			d = d[:80]
		}
		sample = append([]Draw(nil), d...)
	}
	if c.nontrivial {
		s.nontrivial++
		h := fnv.New64a()
		for _, d := range c.draws {
			fmt.Fprintf(h, "%s=%v;", d.L, d.V)
		}
		s.hashes[h.Sum64()] = struct{}{}
		if len(s.samples) < 4 {
			s.samples = append(s.samples, sample)
		}
	} else if s.trivSample == nil {
		s.trivSample = sample
	}
}

// CheckOpts configures Check.
type CheckOpts struct {
	Bubble bool // run each case inside a testing/synctest bubble
}

// Check drives prop with rapid (or replays a saved script once).
func (s *Stats) Check(t *testing.T, o CheckOpts, prop func(c *Case)) {
	run := func(c *Case) {
		defer c.finish()
		defer func() {
			if r := recover(); r != nil {
				if _, ok := r.(abandonCase); ok {
					return
				}
				panic(r)
			}
		}()
		prop(c)
	}
	if s.replay != nil {
		if s.replay.Test != "" && s.replay.Test != s.Test {
			t.Skip("replay file is for another test")
		}
		c := s.newCase(nil)
		c.Src = &listSrc{draws: s.replay.Script, c: c}
		func() {
			defer func() {
				if r := recover(); r != nil {
					switch x := r.(type) {
					case replayFail:
						t.Errorf("replay reproduces the violation: %s", x.msg)
					case scriptExhausted:
						t.Logf("replay ran past the end of the script without a violation")
					case scriptMismatch:
						s.Extra["replay_mismatch"] = x.msg
						t.Logf("REPLAY-MISMATCH: %s", x.msg)
					default:
						panic(r)
					}
				}
			}()
			if o.Bubble {
				syncTestPlain(t, func() { run(c) })
			} else {
				run(c)
			}
		}()
		return
	}
	// real-time watchdog (outside any bubble): a case that makes no progress for 3 minutes is
	// a harness hang (e.g. a spin loop at one virtual instant), reported as such
	stopWD := make(chan struct{})
	defer close(stopWD)
	go func() {
		last, idle := int64(-1), 0
		for {
			select {
			case <-stopWD:
				return
			case <-time.After(10 * time.Second):
			}
			if n := s.progress.Load(); n != last {
				last, idle = n, 0
				continue
			}
			idle++
			if idle >= 18 {
				buf := make([]byte, 1<<22)
				n := runtime.Stack(buf, true)
				fmt.Fprintf(os.Stderr, "WATCHDOG: no progress for 180 s in %s; goroutines:\n%s\n", s.Test, buf[:n])
				os.Exit(3)
			}
		}
	}()
	rapid.Check(t, func(rt *rapid.T) {
		s.progress.Add(1)
		c := s.newCase(rt)
		c.Src = &rapidSrc{rt: rt, c: c}
		if o.Bubble {
			rapid.SyncTest(rt, func(rt2 *rapid.T) { c.RT = rt2; run(c) })
		} else {
			run(c)
		}
	})
}

// EnumCase builds a Case fed from explicit values (exhaustive enumerations).
func (s *Stats) EnumCase(draws []Draw) *Case {
	c := s.newCase(nil)
	c.Src = &listSrc{draws: draws, c: c}
	return c
}

// CountEnum registers n enumerated evaluations, nt of them non-trivial; an
// enumeration visits every tuple exactly once, so they are distinct by construction.
func (s *Stats) CountEnum(n, nt int, class string) {
	s.cases += n
	if class != "" {
		s.classes[class] += n
	}
	s.nontrivial += nt
	s.enumDist += nt
}

// AddSample adds a sample case description (enumerations).
func (s *Stats) AddSample(v any) {
	if len(s.samples) < 4 {
		s.samples = append(s.samples, v)
	}
}

// EnumViolation records a violation found by an enumeration; script holds the
// values under the labels the replay path draws. Known findings are counted.
func (s *Stats) EnumViolation(sig, msg string, script []Draw) bool {
	if _, ok := s.known[sig]; ok {
		s.knownHits[sig]++
		return false
	}
	if s.last == nil {
		s.last = &ViolationRec{Property: s.Property, Test: s.Test, Sig: sig, Message: msg, Script: script}
	}
	s.failed = true
	return true
}

func (s *Stats) write() {
	out := os.Getenv("VERIF_OUT")
	if out == "" {
		return
	}
	s.mu.Lock()
	defer s.mu.Unlock()
	name := strings.NewReplacer("/", "_", " ", "_").Replace(s.Test)
	samples := append([]any(nil), s.samples...)
	if s.trivSample != nil && len(samples) < 5 {
		samples = append(samples, s.trivSample)
	}
	var viol []*ViolationRec
	if s.last != nil {
		viol = append(viol, s.last)
	}
	hf := out + "." + name + ".hashes"
	hs := make([]uint64, 0, len(s.hashes))
	for h := range s.hashes {
		hs = append(hs, h)
	}
	sort.Slice(hs, func(i, j int) bool { return hs[i] < hs[j] })
	buf := make([]byte, 8*len(hs))
	for i, h := range hs {
		binary.LittleEndian.PutUint64(buf[8*i:], h)
	}
	_ = os.WriteFile(hf, buf, 0o644)
	known := map[string]any{}
	for sig, k := range s.known {
		known[sig] = map[string]any{"what": k.What, "replay": k.Replay, "hits": s.knownHits[sig]}
	}
	m := map[string]any{
		"property": s.Property, "test": s.Test, "cases": s.cases, "nontrivial_total": s.nontrivial,
		"distinct_nontrivial": len(s.hashes) + s.enumDist, "enum_distinct": s.enumDist, "classes": s.classes, "samples": samples, "rule": s.Rule,
		"assumptions": s.Assumptions, "violations": viol, "known": known, "exhaustive": s.Exhaustive,
		"extra": s.Extra, "hashes_file": hf, "go_failed": s.t.Failed(), "replaying": s.replay != nil,
	}
	b, _ := json.MarshalIndent(m, "", " ")
	_ = os.WriteFile(out+"."+name+".json", b, 0o644)
}

// Failer is the part of *testing.T / *rapid.T harness set-up code needs.
type Failer interface {
	Fatalf(format string, args ...any)
}

// RTOrT returns the rapid T of the case, or t when replaying.
func (c *Case) RTOrT(t *testing.T) Failer {
	if c.RT != nil {
		return c.RT
	}
	return t
}

// Enumerate runs prop once per cell (a cell is a list of draws fed to the case), honouring
// VERIF_SHARD=i/n, and stops at the first violation. In replay mode it behaves like Check.
func (s *Stats) Enumerate(t *testing.T, o CheckOpts, cells [][]Draw, prop func(c *Case)) {
	if s.replay != nil {
		s.Check(t, o, prop)
		return
	}
	shard, shards := 0, 1
	fmt.Sscanf(os.Getenv("VERIF_SHARD"), "%d/%d", &shard, &shards)
	for i, cell := range cells {
		if shards > 1 && i%shards != shard {
			continue
		}
		s.progress.Add(1)
		c := s.newCase(nil)
		c.Src = &listSrc{draws: cell, c: c}
		failed := ""
		func() {
			defer func() {
				if r := recover(); r != nil {
					switch x := r.(type) {
					case replayFail:
						failed = x.msg
					case abandonCase:
					case scriptExhausted:
						// an enumerated cell fixes a prefix of the draws; a history that asks for
						// more than the cell provides simply ends there
						s.mu.Lock()
						s.classes["cell-ended-at-the-end-of-its-script"]++
						s.mu.Unlock()
					default:
						panic(r)
					}
				}
			}()
			run := func() {
				defer c.finish()
				prop(c)
			}
			if o.Bubble {
				syncTestPlain(t, run)
			} else {
				run()
			}
		}()
		if failed != "" {
			t.Fatalf("VIOLATION %s: %s", s.Property, failed)
		}
	}
}

// PlainCase returns a case that is not driven by a generator (for workloads whose parameters
// come from elsewhere, e.g. a child process).
func (s *Stats) PlainCase() *Case {
	c := s.newCase(nil)
	c.Src = &listSrc{c: c}
	return c
}
