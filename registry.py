"""Which test functions decide which property, with case budgets per tier."""

APP = "./internal/app"
DCS = "./internal/dcs"
MY = "./internal/mysql"
GT = "./internal/mysql/gtids"
OPT = "./internal/app/optimization"

REGISTRY = {
    "C12": dict(
        level="exploration",
        units=[
            dict(pkg=MY, test="TestVerifC12Exhaustive", mode="plain"),
            dict(pkg=MY, test="TestVerifC12Random", quick=3000, thorough=60000, shards_thorough=8),
        ],
    ),
}
