"""Which test functions decide which property, with case budgets per tier."""

APP = "./internal/app"
DCS = "./internal/dcs"
MY = "./internal/mysql"
GT = "./internal/mysql/gtids"
OPT = "./internal/app/optimization"

REGISTRY = {
    "C20": dict(
        level="exploration", death_is_violation=True,
        units=[dict(pkg=APP, test="TestVerifC20Inputs", quick=1600, thorough=80000, shards_quick=16, shards_thorough=16, flight=True),
               dict(pkg=APP, test="TestVerifC20Leak", quick=64, thorough=1200, shards_quick=16, shards_thorough=16),
               # other properties' histories re-run with "a daemon panic is the violation"
               dict(pkg=APP, test="TestVerifC09", env={"VERIF_PANIC_IS_VIOLATION": "1"}, quick=800, thorough=30000, shards_quick=16, shards_thorough=16),
               dict(pkg=APP, test="TestVerifC11Check", env={"VERIF_PANIC_IS_VIOLATION": "1"}, quick=2400, thorough=60000, shards_quick=16, shards_thorough=16),
               dict(pkg=APP, test="TestVerifC11Sim", env={"VERIF_PANIC_IS_VIOLATION": "1"}, quick=600, thorough=20000, shards_quick=16, shards_thorough=16),
               dict(pkg=APP, test="TestVerifC06", env={"VERIF_PANIC_IS_VIOLATION": "1"}, quick=1000, thorough=20000, shards_quick=16, shards_thorough=16),
               dict(pkg=APP, test="TestVerifC20Race", race=True, gomaxprocs=4, quick=24, thorough=240, shards_quick=4, shards_thorough=4, report_unconfirmed=True)],
    ),
    "C04": dict(
        level="exploration",
        units=[dict(pkg=APP, test="TestVerifC04", quick=1600, thorough=60000, shards_quick=16, shards_thorough=16),
               dict(pkg=APP, test="TestVerifC04Enumerate", mode="enum", quick=0, thorough=0, shards_quick=16, shards_thorough=16)],
    ),
    "C09": dict(
        level="exploration",
        units=[dict(pkg=APP, test="TestVerifC09", quick=1600, thorough=60000, shards_quick=16, shards_thorough=16),
               dict(pkg=APP, test="TestVerifC09Light", quick=480, thorough=12000, shards_quick=16, shards_thorough=16)],
    ),
    "C11": dict(
        level="exploration",
        units=[dict(pkg=APP, test="TestVerifC11Check", quick=4800, thorough=200000, shards_quick=16, shards_thorough=16),
               dict(pkg=APP, test="TestVerifC11Sim", quick=1200, thorough=40000, shards_quick=16, shards_thorough=16)],
    ),
    "C10": dict(
        level="exploration",
        units=[dict(pkg=APP, test="TestVerifC10", quick=2400, thorough=60000, shards_quick=16, shards_thorough=16),
               dict(pkg=APP, test="TestVerifC10Grid", mode="enum", quick=0, thorough=0, shards_quick=16, shards_thorough=16)],
    ),
    "C16": dict(
        level="exploration", death_is_violation=True,
        units=[dict(pkg=APP, test="TestVerifC16Resolve", quick=40000, thorough=2000000, shards_quick=8, shards_thorough=16, flight=True),
               dict(pkg=APP, test="TestVerifC16Counts", quick=20000, thorough=400000, shards_quick=4, shards_thorough=8),
               dict(pkg=APP, test="TestVerifC16Move", quick=3200, thorough=200000, shards_quick=16, shards_thorough=16),
               dict(pkg=APP, test="TestVerifC16Sim", quick=800, thorough=30000, shards_quick=16, shards_thorough=16)],
    ),
    "C19": dict(
        level="exploration",
        units=[dict(pkg=OPT, test="TestVerifC19", quick=20000, thorough=500000, shards_quick=8, shards_thorough=16),
               dict(pkg=APP, test="TestVerifC19Sim", quick=800, thorough=30000, shards_quick=16, shards_thorough=16),
               dict(pkg=APP, test="TestVerifC19Steady", quick=800, thorough=30000, shards_quick=16, shards_thorough=16)],
    ),
    "C17": dict(
        level="exploration",
        units=[dict(pkg=APP, test="TestVerifC17", quick=6000, thorough=300000, shards_quick=16, shards_thorough=16)],
    ),
    "C18": dict(
        level="exploration",
        units=[dict(pkg=APP, test="TestVerifC18", quick=8000, thorough=400000, shards_quick=16, shards_thorough=16)],
    ),
    "C08": dict(
        level="exploration",
        units=[dict(pkg=APP, test="TestVerifC08", quick=4000, thorough=200000, shards_quick=16, shards_thorough=16)],
    ),
    "C05": dict(
        level="exploration",
        units=[dict(pkg=APP, test="TestVerifC05", quick=2400, thorough=100000, shards_quick=16, shards_thorough=16)],
    ),
    "C06": dict(
        level="exploration",
        units=[dict(pkg=APP, test="TestVerifC06", quick=2000, thorough=50000, shards_quick=16, shards_thorough=16)],
    ),
    "C07": dict(
        level="fault_enumeration",
        units=[
            dict(pkg=APP, test="TestVerifC07", quick=960, thorough=16000, shards_quick=16, shards_thorough=16),
            dict(pkg=APP, test="TestVerifC07Enumerate", mode="enum", quick=150, thorough=150, shards_quick=16, shards_thorough=16),
        ],
    ),
    "C01": dict(
        level="exploration",
        units=[dict(pkg=APP, test="TestVerifC01", quick=3200, thorough=100000, shards_quick=16, shards_thorough=16)],
    ),
    "C02": dict(
        level="exploration",
        units=[dict(pkg=APP, test="TestVerifC02", quick=640, thorough=20000, shards_quick=16, shards_thorough=16)],
    ),
    "SMOKE": dict(
        level="exploration",
        units=[dict(pkg=APP, test="TestVerifSimSmoke", quick=20, thorough=200)],
    ),
    "C03": dict(
        level="exploration",
        units=[
            dict(pkg=DCS, test="TestVerifC03Lock", quick=6000, thorough=200000, shards_quick=8, shards_thorough=16),
            dict(pkg=APP, test="TestVerifC03Daemon", quick=1600, thorough=40000, shards_quick=16, shards_thorough=16),
        ],
    ),
    "C15": dict(
        level="exploration",
        units=[
            dict(pkg=DCS, test="TestVerifC15", quick=16000, thorough=150000, shards_quick=8, shards_thorough=16),
        ],
    ),
    "C13": dict(
        level="exploration",
        units=[
            dict(pkg=GT, test="TestVerifC13Exhaustive", mode="plain"),
            dict(pkg=GT, test="TestVerifC13Random", quick=20000, thorough=600000, shards_quick=4, shards_thorough=12),
            dict(pkg=APP, test="TestVerifC13MostRecent", quick=20000, thorough=600000, shards_quick=4, shards_thorough=12),
        ],
    ),
    "C14": dict(
        level="exploration", death_is_violation=True,
        units=[
            dict(pkg=APP, test="TestVerifC14", quick=48000, thorough=2000000, shards_quick=8, shards_thorough=16, flight=True),
        ],
    ),
    "C12": dict(
        level="exploration",
        units=[
            dict(pkg=MY, test="TestVerifC12Exhaustive", mode="plain"),
            dict(pkg=MY, test="TestVerifC12Random", quick=3000, thorough=60000, shards_thorough=8),
        ],
    ),
}
