#!/bin/bash
# usage: tools/seedtest.sh <patch.diff> <check-id> [extra check args]: applies a seeded change to /repo, runs the check, reverts
set -u
P=$1; ID=$2; shift 2
cd /repo && git apply --check "$P" || { echo "patch does not apply"; exit 3; }
git -C /repo apply "$P"
cd /verif && ./check $ID --no-evidence "$@" 2>&1 | grep -E "VIOLATION|INCONCL|evaluations|KNOWN" | cut -c1-400
rc=${PIPESTATUS[0]}
git -C /repo checkout -- . ; git -C /repo status --short | head -3
echo "SEED rc=$rc"
