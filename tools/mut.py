#!/usr/bin/env python3
"""Development helper: run a check against a mutated copy of one repo file (through the build overlay;
/repo is not touched).  usage: tools/mut.py <repo-rel-file> <old> <new> -- ./check C12 ...
<old> must occur exactly once in the file (or use count with @N suffix: 'old@2' = 2nd occurrence)."""
import json, os, subprocess, sys, tempfile
i = sys.argv.index("--")
rel = sys.argv[1]
pairs = sys.argv[2:i]
cmd = sys.argv[i + 1:]
mut = open(os.path.join("/repo", rel)).read()
for k in range(0, len(pairs), 2):  # several <old> <new> pairs may be given
    old, new = pairs[k], pairs[k + 1]
    nth, explicit = 1, False
    if "@" in old and old.rsplit("@", 1)[1].isdigit():
        old, n = old.rsplit("@", 1); nth = int(n); explicit = True
    parts = mut.split(old)
    if len(parts) - 1 < nth or (not explicit and len(parts) != 2):
        sys.exit("pattern %r occurs %d times" % (old, len(parts) - 1))
    mut = old.join(parts[:nth]) + new + old.join(parts[nth:])
d = tempfile.mkdtemp(prefix="mut-")
f = os.path.join(d, os.path.basename(rel))
open(f, "w").write(mut)
ov = os.path.join(d, "ov.json")
json.dump({os.path.join("/repo", rel): f}, open(ov, "w"))
env = dict(os.environ, VERIF_DEV_MUTANT_OVERLAY=ov)
rc = subprocess.call(cmd + ["--no-evidence"], env=env)
import shutil; shutil.rmtree(d)
print("MUTANT rc=%d" % rc)
sys.exit(rc)
