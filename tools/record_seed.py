#!/usr/bin/env python3
"""usage: tools/record_seed.py <seed-id> <property> <change-dir> <detected: yes|no|after-strengthening> <check-output-line> """
import json, os, shutil, sys
sid, prop, src, det, line = sys.argv[1:6]
d = os.path.join('/verif/seeded', sid)
os.makedirs(d, exist_ok=True)
for f in os.listdir(src):
    shutil.copy(os.path.join(src, f), os.path.join(d, f))
readme = open(os.path.join(src, 'README.md')).read() if os.path.exists(os.path.join(src, 'README.md')) else ''
meta = {"seed": sid, "property": prop, "origin": "independent sub-agent given only the property text and a scratch worktree",
        "needs_to_manifest": readme[:1500], "confirmed": "tools/confirm_seed.sh: applies, builds, existing unit tests pass, demo fails with the change and passes without (run in the scratch worktree)",
        "check_run": "tools/seedtest.sh <patch> %s (quick tier, VERIF_SEED=1)" % prop, "detected": det, "check_output": line}
json.dump(meta, open(os.path.join(d, 'meta.json'), 'w'), indent=1)
print("recorded", d)
