#!/bin/bash
# development helper: tools/runall.sh <tier> <seed> : runs every check, prints one line per property
T=${1:-quick}; S=${2:-1}
for p in C01 C02 C03 C04 C05 C06 C07 C08 C09 C10 C11 C12 C13 C14 C15 C16 C17 C18 C19 C20; do
  D=$(cd "$(dirname "$0")/.." && pwd)
  out=$($D/check $p --tier $T --seed $S 2>&1); rc=$?
  echo "rc=$rc $(echo "$out" | grep -E "^$p tier" | cut -c1-120) $(echo "$out" | grep -cE '^KNOWN-FINDING') known $(echo "$out" | grep -E '^VIOLATION|^INCONCLUSIVE' | cut -c1-200)"
done
