#!/usr/bin/env python3
"""usage: tools/fixfinding.py <sig> <commit> <regression-file-name> <what failed>
(development helper: turns a recorded known finding into a 'fixed:' entry; its replay becomes a regression script)"""
import json, os, shutil, sys
sig, commit, name, what = sys.argv[1:5]
lines = [l for l in open('/verif/known_findings.jsonl').read().split('\n') if l.strip()]
out = []; prop = None
for l in lines:
    if l.startswith('{'):
        j = json.loads(l)
        if j['sig'] == sig:
            prop = j['property']
            shutil.move('/verif/' + j['replay'], '/verif/regressions/' + name)
            continue
    out.append(l)
assert prop, 'signature not found'
out.append("fixed: property=%s %s %s; regression script regressions/%s" % (prop, commit, what, name))
open('/verif/known_findings.jsonl', 'w').write('\n'.join(out) + '\n')
print('fixed', sig)
