#!/bin/bash
# usage: tools/confirm_seed.sh <worktree> <change-dir> <pkg-rel-dir> <run-regex>
# Confirms a seeded change in its own scratch worktree: applies, builds, existing tests pass,
# demo fails with the change and passes without it.
W=$1; C=$2; PKG=$3; RUN=$4
export GOFLAGS=-mod=mod GOPROXY=off
cd $W || exit 9
git checkout -q -- . ; rm -f $PKG/zz_seed_demo_test.go
git apply --check $C/patch.diff || { echo "NO-APPLY"; exit 1; }
git apply $C/patch.diff
go build ./... || { echo "NO-BUILD"; git checkout -q -- .; exit 1; }
T=$(go test -vet=off -count=1 ./internal/... ./tests/testutil/... 2>&1 | grep -c "^FAIL\|^---.FAIL")
echo "existing-tests-failures-with-change=$T"
cp $C/demo_test.go $PKG/zz_seed_demo_test.go
go test -vet=off -count=1 -run "$RUN" ./$PKG/ > /tmp/confirm.with 2>&1; RW=$?
git checkout -q -- .
go test -vet=off -count=1 -run "$RUN" ./$PKG/ > /tmp/confirm.without 2>&1; RO=$?
rm -f $PKG/zz_seed_demo_test.go
echo "demo-with-change-rc=$RW (want !=0) demo-without-rc=$RO (want 0)"
[ $T -eq 0 ] && [ $RW -ne 0 ] && [ $RO -eq 0 ] && echo CONFIRMED || { echo NOT-CONFIRMED; tail -5 /tmp/confirm.with; tail -5 /tmp/confirm.without; }
