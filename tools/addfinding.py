#!/usr/bin/env python3
"""usage: tools/addfinding.py <replay.json> <findings-file-name> <what>   (development helper: copies the replay to findings/ and appends the entry)"""
import json, shutil, sys
rp, name, what = sys.argv[1:4]
j = json.load(open(rp))
shutil.copy(rp, "/verif/findings/" + name)
k = {"property": j["property"], "sig": j["sig"], "what": what, "replay": "findings/" + name}
open("/verif/known_findings.jsonl", "a").write(json.dumps(k) + "\n")
print("added", j["sig"])
