#!/bin/bash
# development helper: tries every recorded seeded change against the check of its property (quick tier)
# usage: tools/seedsweep.sh [pattern]   - prints one line per seed; /repo is restored after each
cd /verif
for d in seeded/${1:-*}; do
  id=$(basename $d); prop=$(python3 -c "import json;print(json.load(open('$d/meta.json'))['property'])")
  det=$(python3 -c "import json;print(json.load(open('$d/meta.json'))['detected'])")
  chk=$prop
  case "$det" in by-C05) chk=C05;; by-C03) chk=C03;; esac
  pf=/verif/$d/patch.diff; [ -f /verif/$d/patch-rebased-on-repaired-tree.diff ] && pf=/verif/$d/patch-rebased-on-repaired-tree.diff
  git -C /repo apply --check $pf 2>/dev/null || { echo "$id NO-APPLY"; continue; }
  git -C /repo apply $pf
  out=$(./check $chk --no-evidence 2>&1); rc=$?
  git -C /repo checkout -- .
  echo "$id check=$chk rc=$rc $(echo "$out" | grep -E '^VIOLATION' | sed 's/.*replays.//' | cut -c1-80)"
done
rm -f replays/*.json
