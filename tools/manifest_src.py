NOTES = "All checks run the real, unmodified mysync code from /repo's working tree; nothing in /repo is changed (overlay injection). See DESIGN.md."

ALL = ["C%02d" % i for i in range(1, 21)]

CHECKS = [
    dict(property_id="C12", category="exploration",
         text="Exhaustive enumeration of every (list size, configured count, permissible count, semi-sync) tuple up to 150 (quick) / 400 (thorough) through the three real SwitchHelper methods, plus random sampling of large sizes and counts up to MaxInt; the oracle is the statement's inequalities. Finite domain fully covered; beyond the bound the closed-form argument in DESIGN.md C12 applies.",
         design_ref="DESIGN.md section 4, C12",
         note="Trusted: the oracle's reading of the statement (replicas in list = n-1 because the list contains the master).",
         technique="exhaustive enumeration + property-based sampling against the statement's inequalities"),
]

_claimed = {c["property_id"] for c in CHECKS}
NOT_APPLICABLE = [dict(property_id=p, reason="check not built yet in this revision (framework under construction; see DESIGN.md build order)") for p in ALL if p not in _claimed]
