NOTES = "All checks run the real, unmodified mysync code from /repo's working tree; nothing in /repo is changed (overlay injection). See DESIGN.md."

ALL = ["C%02d" % i for i in range(1, 21)]

CHECKS = [
    dict(property_id="C12", category="exploration",
         text="Exhaustive enumeration of every (list size, configured count, permissible count, semi-sync) tuple up to 150 (quick) / 400 (thorough) through the three real SwitchHelper methods, plus random sampling of large sizes and counts up to MaxInt; the oracle is the statement's inequalities. Finite domain fully covered; beyond the bound the closed-form argument in DESIGN.md C12 applies.",
         design_ref="DESIGN.md section 4, C12",
         note="Trusted: the oracle's reading of the statement (replicas in list = n-1 because the list contains the master).",
         technique="exhaustive enumeration + property-based sampling against the statement's inequalities"),
]

CHECKS += [
    dict(property_id="C13", category="exploration",
         text="Every ordered pair of subsets of four small GTID universes (2 UUIDs x numbers 1-4 / 1-6 in thorough, tagged variants) x 3 master UUIDs is enumerated exhaustively through the real ParseGtidSet / IsSlaveBehindOrEqual / IsSlaveAhead / IsSplitBrained / GTIDDiff and compared with an interval-membership reference model; random large sets (gaps, tags, numbers to 2^40, un-normalised spellings) and generated lists of 1-5 node positions (chains, incomparable members, antichains) extend it to findMostRecentNodeAndDetectSplitbrain. The small universes are covered completely; beyond them this is sampling.",
         design_ref="DESIGN.md section 4, C13",
         note="Trusted: the reference model (closed intervals + membership on elementary segments, ~40 lines) and the renderer that prints sets the way MySQL does.",
         technique="exhaustive small-universe enumeration + property-based testing against a reference set model (differential oracle, round-trip of the diff text)"),
    dict(property_id="C14", category="exploration",
         text="Generated candidate lists (0-6 nodes, priorities, lag grid around the bound incl. unknown lag, chain/equal/incomparable/antichain GTID sets, optional 'from' host, six bounds incl. 0) are fed to the real getMostDesirableNode composed with filterOutNodeFromPositions; the oracle is a validity predicate written from the statement (not one expected answer, because mysync's scan order may legitimately pick any of several). Termination is checked with a watchdog and by treating a stack-overflow death of the worker as a violation with the in-flight case as replay.",
         design_ref="DESIGN.md section 4, C14",
         note="Trusted: the validity predicate; the 10 s watchdog is 10^6 times the normal run time of the function.",
         technique="property-based testing with a validity-predicate oracle"),
]

CHECKS += [
    dict(property_id="C15", category="exploration",
         text="Model-based stateful testing: generated histories of the data operations (Create, CreateEphemeral, Set, SetEphemeral, Get, Delete, GetChildren, GetTree) by 1-3 real zkDCS clients plus a raw external writer, over 9 keys with random redundant-slash spellings and 7 JSON value shapes, interleaved with connection severing, cut-offs, forced and timer-driven session expiry and virtual-time advances, run against a fake ZooKeeper wire server in a synctest bubble; after every step each result and the whole server tree are compared with a reference tree model written from the statement, and the timing clause (ephemerals gone within the session timeout after a cut-off) is asserted on the virtual clock. A create request can be lost on the wire while somebody else creates the key before the client re-sends it (injected through the interceptor): 'exists' is then the only right answer.",
         design_ref="DESIGN.md section 4, C15; section 2.1",
         note="Trusted: the fake ZooKeeper server's znode/session semantics (it supplies session liveness to the model); go-zookeeper and net.Pipe behave in the bubble as outside; faults fall between operations.",
         technique="stateful model-based property testing (rapid) of the real zkDCS against a reference tree model over a fake ZooKeeper wire server"),
]

CHECKS += [
    dict(property_id="C02", category="exploration",
         text="Generated single-fault histories run the real daemons (state machine, failover approval, switchover, active-list maintenance, repair, recovery checker) over fake ZooKeeper and MySQL wire servers in virtual time: cold-start convergence, client workload, one drawn event at a drawn point of the tick/health cycle for a drawn duration, healing, external resetup tool, quiescence across 90 virtual minutes. Oracles use the fakes' ground truth: at most one host able to acknowledge a write after every mutating statement while the fault lasts, and the end-state clause of the statement including every acknowledged write. Sampling, not exhaustive; bounded liveness in virtual time.",
         design_ref="DESIGN.md section 4, C02; sections 2.2-2.4",
         note="Trusted: the two fakes (semantics listed in the evidence assumptions), synctest, and that loop bodies of one process run one at a time in the stepper.",
         technique="property-based fault-injection testing of the real daemons in a deterministic cluster simulation (rapid + synctest), invariant + end-state oracles on fake-server ground truth"),
]

CHECKS += [
    dict(property_id="C01", category="exploration",
         text="Warm clusters with GTID histories built by construction (prefixes, gaps, received-unapplied tails, errant transactions), consistent or stale active lists, every request kind, up to 3 statement faults (errors, hangs, cuts before/after effect), server loss at a call boundary and ZooKeeper request faults are processed by real manager ticks; the promotion clause is evaluated by the fake server at the instant 'SET GLOBAL read_only = 0' reaches a host other than the recorded master, on ground-truth transaction sets (including what frozen members held when frozen, so that a discarded relay log cannot hide a loss); the split-brain clause is checked on fault-free ticks. Sampling of a very large space; a violation is a concrete replayable history. Asynchronous clusters can carry the replicated heartbeat table with async_allowed_lag 20s/10min: the exception is granted only when the request being executed has cause auto and the target's measured lag is below the allowed lag.",
         design_ref="DESIGN.md section 4, C01",
         note="Trusted: fake MySQL semantics (CHANGE SOURCE purges the relay log, apply delay model), derivation of 'frozen by this tick' from the statement log (SET + verification read + first STOP IO_THREAD). Async allowed-lag exception: generated only in its own class, containment then ignores transactions younger than the allowed lag.",
         technique="property-based fault-injection testing in the cluster simulation with an instant-of-effect oracle on fake-server ground truth"),
]

CHECKS += [
    dict(property_id="C07", category="fault_enumeration",
         text="The manager is killed (all connections vanish without close, session lingers until expiry) or loses ZooKeeper at its k-th external call - each SQL statement and each ZooKeeper write of the switchover, a ZooKeeper call cut before or after taking effect - for generated scenarios (quick: k drawn) and, in the thorough tier, for EVERY k of every scenario of a fixed grid x 2 successors; the successor daemons then run to quiescence and the C02 end-state oracle plus 'request no longer pending' are evaluated on ground truth. Crash points are call boundaries; a crash between two local actions is equivalent to a neighbouring point for everything observed except local files. Scenarios also come asynchronous (semi-sync off: only commits acknowledged by a server that never crashes must survive) and with clients writing to whatever is writable in the window between the interruption and the successor's first iteration while downloads are slow; the enumerating unit visits every call boundary (quick 900 cells, thorough 6600).",
         design_ref="DESIGN.md section 4, C07",
         note="Trusted: as C02; K (calls of the procedure) is measured per run by the fakes.",
         technique="fault enumeration over external call boundaries in the cluster simulation (property-based sampling in quick, exhaustive grid in thorough) with an end-state oracle"),
]

CHECKS += [
    dict(property_id="C06", category="exploration",
         text="Generated request histories (operator, worker-written and automatic requests, competing initiators, aborts and abort+refile also while an attempt is in flight, sticky MySQL-side faults that keep attempts failing, light maintenance, time advances across the timeout) are processed by the real manager loop in the simulation; an oracle over the ordered log of writes and deletes of switch / last_switch / last_rejected_switch checks the life cycle of every request (identity = initiated_by + initiated_at), and per completed manager iteration the bound, no-re-judging and success-implies-master clauses. Scripts of the three defects found and repaired are replayed on every run. An operator request can also slip in INSIDE the manager's iteration (injected through the ZooKeeper interceptor between the manager's look at the switch key and its own filing of a failover).",
         design_ref="DESIGN.md section 4, C06",
         note="Trusted: as C02; an iteration's window is delimited at the instant its body returns. Not reached: a request filed between the manager's own 'no request' read and IssueFailover inside one non-blocking stretch (stepper limit). Real CLI entry points are not driven (they need a real TCP dial); the operator model does the same create-if-absent writes.",
         technique="stateful property-based testing in the cluster simulation with a history oracle over the coordination-key log"),
]

CHECKS += [
    dict(property_id="C05", category="exploration",
         text="Generated histories of configuration, maintenance, pending requests, master conditions (dead, isolated from the manager only, health record missing, read-only filesystem, crash-recovered, flapping), replica states, stale active lists, injected last-switch records and manager changes are run through the real manager loop; at every creation of an automatic request the oracle re-evaluates every gate of the statement from the coordination tree as of the filing instant, the servers' reachability/ground truth and the per-process history of master-record evaluations (bad evaluations recorded liberally, good ones conservatively, so a racing change cannot cause an alarm); the converse clause is checked on iterations that cannot reach a master whose own record is good. The evidence carries the histogram of 'only this gate closed' per gate.",
         design_ref="DESIGN.md section 4, C05",
         note="Trusted: as C02; iterations whose observed keys were changed by somebody else while they ran are skipped (counted).",
         technique="stateful property-based testing in the cluster simulation with an observation-based decision oracle"),
]

CHECKS += [
    dict(property_id="C08", category="exploration",
         text="A real daemon is driven into the lost state (ZooKeeper link cut until the client gives the session up) on a master / HA replica / cascade host; for sequences of lost-state iterations the per-replica conditions (streaming with or without the semi-sync flag, stopped, other source, refusing, erroring, timing out), the local wait count and master flag, the outcome of the read-only attempt (ok / 1205 / hang / other), stuck semi-sync commits, elapsed time across inactivation_delay and reconnection are generated; the oracle is a decision table written from the statement and applied to ground truth and reachability at the start of each iteration, plus 'no statement to other hosts, no un-fencing or re-pointing while disconnected' and the offline -> semi-sync off -> read-only order for stuck commits. Replica conditions include threads that failed with an error recorded (not merely stopped).",
         design_ref="DESIGN.md section 4, C08",
         note="Trusted: fake MySQL's model of commits waiting for an ack (SET read_only blocks on them until the lock wait timeout; offline_mode kills sessions but does not release the wait; disabling semi-sync does). Postponement is judged leniently (window measured from the end of the first iteration that saw a timeout to the start of the current one).",
         technique="property-based testing of the real lost-state handler over fake servers with a decision-table oracle"),
]

CHECKS += [
    dict(property_id="C03", category="exploration",
         text="Two layers. (a) Lock layer: a rapid state machine over 2-3 real zkDCS clients (distinct process identities, restarts as new incarnations) on the fake ZooKeeper in virtual time - acquire/release/re-check, severed connections, refused reconnects, one-way black holes, delays below a third of the session timeout, forced and timer expiry, server stop/start, request-level faults (cut before / reply lost / hang) - with an oracle over the server's mutation log: every true answer is backed by the lock znode being owned by a live session of that client at some instant of the call, and every delete of the lock znode comes from its owner. (b) Daemon layer: generated histories in the cluster simulation with every AcquireLock answer recorded by a decorator; per completed iteration cluster-wide actions (mutating SQL to other hosts, writes of the guarded keys) occur only after a true answer in that iteration, and a promoting iteration has >=3 true answers before its first irrevocable statement, positioned after the freeze and after the catch-up. A rival process can acquire the lock inside the interceptor while another client's create request is in limbo (the interleaving a sequential driver cannot produce).",
         design_ref="DESIGN.md section 4, C03",
         note="Trusted: fake ZooKeeper session semantics; the ZooKeeper timing assumption (delays < T/3, sessions end by the server's timer; an administrative expiry is generated only without message delay); goroutine scheduling lag between a disconnect event and the cache being cleared is not modelled (virtual time).",
         technique="stateful model-based property testing of the real lock client against server-side ownership history + trace oracle in the cluster simulation"),
]

CHECKS += [
    dict(property_id="C17", category="exploration",
         text="The real repairOfflineMode runs on a cluster state collected by the real getClusterStateFromDB from fake servers whose zone layout, separator, percentage, lags around both thresholds, unknown lag, permanent breakage, resetup-status ages, master mode and recovery mark are generated, over 1-3 passes with time advancing across the enable interval; every offline_mode statement that reaches a server is judged in arrival order against the statement's rules (validity predicate: mysync's map iteration order decides which replica goes first, so there is no single expected answer). The coordination-service write that registers a replica taken offline for lag may fail (cut through the interceptor): the statement still counts towards the zone's share.",
         design_ref="DESIGN.md section 4, C17",
         note="Trusted: fake MySQL's Seconds_Behind model (NULL when the SQL thread is stopped or the IO thread is stopped with an empty relay log). The check judges statements that were sent; it does not demand that a permitted action is taken (the statement says 'only when').",
         technique="property-based testing of the real repair pass over fake servers with a per-statement validity oracle"),
    dict(property_id="C18", category="exploration",
         text="The real repairReadOnlyOnMaster is called with generated health records (usages on a grid around both thresholds incl. equality and >total, missing reports, semi-sync/running flags), wait counts, master modes and both settings of the super-writable switch over 1-4 passes against a fake master; the statements that arrive and the low_space key are compared with the action table written from the statement.",
         design_ref="DESIGN.md section 4, C18",
         note="Trusted: the action table. A missing master disk report is treated as unspecified (only 'no crash' is required there).",
         technique="property-based testing of the real decision function over a fake server with a decision-table oracle"),
]

CHECKS += [
    dict(property_id="C19", category="exploration",
         text="Unit half: the real Syncer and Controller run as a rapid state machine over in-memory implementations of the package's own DCS / Node / Cluster interfaces (registries with status new/enabled, lags around both marks, settings equal/relaxed/other, role changes, host removal, settings changed by hand, a drawn call of a drawn method failing); the oracle checks every DeleteHosts at the instant it happens (settings restored, or host no longer in the cluster) and the post-conditions of every Sync that returned nil. Simulation half: clusters with registered relaxed replicas and lagging targets go through every request kind; at the promotion instant the promoted node must be neither registered nor relaxed. One defect found by the unit half is recorded as a known finding. A third unit (TestVerifC19Steady) runs ordinary manager iterations through the real cluster/DCS adapters while the registered replica's health record vanishes or goes stale; after every round a reachable replica that carries the relaxed settings in ground truth must still be registered.",
         design_ref="DESIGN.md section 4, C19",
         note="Trusted: 'restored' means the master's settings or the fully durable defaults the code falls back to when the master's settings cannot be read.",
         technique="stateful model-based property testing of the real Syncer/Controller over in-memory interface implementations with fault injection + instant-of-promotion oracle in the cluster simulation"),
]


CHECKS += [
    dict(property_id="C16", category="exploration",
         text="Four generated checks on the real code. (1) findBestStreamFrom over generated stream_from maps (chains, cycles through the replica, self-references, references to HA hosts), ancestor health/lag/offline combinations and 'already streaming' against a reference resolver written from the statement, with never-self and termination (watchdog) asserted separately. (2) the guarded move: the real repairSlaveNode on states collected by getClusterStateFromDB from fake servers whose transaction sets are drawn independently (behind/equal/ahead/diverged relations); every CHANGE SOURCE reaching a cascade replica that has a channel is judged against ground truth at the instant it arrives. (3) metamorphic check of the HA counting helpers: deleting the cascade hosts from the observed state changes no count. (4) whole-cluster simulation with cascade replicas, source crashes, lagging sources and stream_from rewrites: same instant-of-move oracle, and no cascade host in active_nodes after any round. 'Never promoted' is reported by the promotion monitor shared with C01/C02/C05/C07, whose generators include cascade replicas. The simulation also converts HA replicas into cascade replicas (as 'mysync host add --stream-from' does) and lets the master die with automatic failover enabled; no SET read_only=OFF may reach a host registered as cascade replica.",
         design_ref="DESIGN.md section 4, C16",
         note="Trusted: the fake servers' transaction sets are the ground truth; the aggressive-repair path (reset + re-point at the master) is not enabled in these runs.",
         technique="property-based testing with a reference resolver (model oracle), a metamorphic relation on the counting helpers, and an instant-of-effect invariant over generated transaction-set relations and simulated histories"),
]

CHECKS += [
    dict(property_id="C10", category="exploration",
         text="The real daemons (manager elected through the fake ZooKeeper) run repeated iterations over fake MySQL servers whose initial state is drawn per host from the product the property lists (read-only flags, offline, semi-sync flags, replication source incl. another replica and an unregistered server, thread states, SQL errors that persist or get cured, hosts claiming to be master with or without own transactions), with semi-sync and aggressive repair on/off, attempt limits 1-3 and 0-4 failing statements (error, cut before/after execution, hang) aimed at the repair statements. Monitors judge every statement at the instant it arrives (none to the unregistered server, none pointing a server at itself or at it, RESET REPLICA ALL only when aggressive repair, attempt limit and cooldown allow), the master key after every iteration, and the end state after fault-free iterations with time jumps. A second unit visits every cell of a reduced grid (648 cells) exactly once. One defect found is recorded as a known finding. Repair statements may also keep failing on the broken hosts for the whole run, or START REPLICA may fail right after RESET REPLICA ALL: failed attempts count against limit and cooldown like successful ones.",
         design_ref="DESIGN.md section 4, C10",
         note="Trusted: the fake servers' variables and channels are the ground truth; failing reads on the master are not injected (the property presumes a healthy reachable master); hosts that ever had an SQL error are exempt from 'replication runs' (their repair budget may be spent) but not from 'points at the master'.",
         technique="property-based testing of the real repair loop over fake servers: generated initial states and fault schedules, instant-of-statement invariants plus an end-state validity predicate; exhaustive enumeration of a reduced grid"),
]


CHECKS += [
    dict(property_id="C11", category="exploration",
         text="Two generated checks on the real code. (1) the marked host's own recovery checker (real checkRecovery through the daemon's recovery loop body) over the product of transaction-set relations (behind / equal / ahead on the master's id / diverged / ahead by own transactions), replication states, read-only states, stuck semi-sync commits, resetup file, master reachable or not, with 1-3 runs and healing in between: a mark is removed only by the host's own process while the host is, in ground truth, a clean read-only replica without resetup file; an unclean replica gets the resetup file and keeps the mark. (2) histories in the cluster simulation (failovers with and without an unreplicated tail, switchovers, crashes, restarts, hand-made rogue masters also outside the active list, resetup tool, the hosts' recovery checks interleaved body by body with manager iterations): after every ZooKeeper change no marked non-master host is in active_nodes; the master key leaves a host that was down for the whole procedure only if it is marked; a host found claiming to be master and re-pointed is marked by the end of that iteration; no SET read_only=OFF reaches a marked host that is not the recorded master.",
         design_ref="DESIGN.md section 4, C11",
         note="Trusted: bodies run one at a time, so the state seen at a ZooKeeper change is the state the running body saw or made; ground truth is the fake servers' state.",
         technique="property-based testing: generated input product for the recovery checker with a ground-truth validity oracle, and stateful history generation over the cluster simulation with invariants evaluated after every coordination-store change"),
]


CHECKS += [
    dict(property_id="C09", category="exploration",
         text="Histories in the cluster simulation with the real daemons: the operator files a full or light maintenance request (semi-sync disabled on entry or not), racing with a switch request or a crash; the judged window opens the instant the manager acknowledges (other processes may not have noticed) and closes when should_leave is set. In between a generated sequence of loop bodies, full rounds, mysync kills and restarts, ZooKeeper outages and per-host cuts, mysqld crashes and starts, manual topology changes (moving the master, creating a second master, stopping threads), switch and forced-failover requests, client writes and time jumps. FULL mode: every statement from a mysync process is judged by its effect on the server's settings/replication configuration (a no-op SET is not a change), and every write to master/active_nodes by a mysync client is a violation. LIGHT mode: no failover request filed by mysync, no promotion under a pending failover request. LEAVE: the request is deleted only with exactly one alive master in ground truth, recorded master = that server, active list non-empty; several masters seen by the leaving process => emergency file. One defect found is recorded as a known finding.",
         design_ref="DESIGN.md section 4, C09",
         note="Trusted: loop bodies run one at a time; 'alive master' is the fake servers' ground truth of what getMasterHost counts (up, no replication channel). That planned switchovers and repairs still make progress in light mode is judged by a second unit (TestVerifC09Light) as bounded progress in fault-free histories on a converged cluster.",
         technique="stateful property-based testing over the cluster simulation: generated histories with fault and operator actions, effect-based statement invariant and coordination-store history invariant inside the acknowledged window, ground-truth validity predicate at the leave instant"),
]


CHECKS += [
    dict(property_id="C04", category="exploration",
         text="Histories in the cluster simulation (2-5 HA hosts, optional cascade replica, configured count 1-3, both adjustment orders): transitions made of replica crashes, returns, SQL errors, operator STOP REPLICA, errant transactions, download lag, a 'swap' (one member leaves while another host joins) and time jumps, each followed by iterations of every process. The manager's iteration runs clean, or the manager is killed at its k-th external call (SQL statement or ZooKeeper write), or its k-th statement fails, or the master's mysqld dies at its k-th call (k drawn over the calls a clean iteration makes). Invariants (a) and (b) are evaluated on ground truth before and after every manager iteration and replayed over every single change inside it, which names the change that turned the invariant false (finding signature). Also judged: list content after complete clean iterations (cascade, marked, diverged, dead or broken beyond the delay) and that no write of the list made after the master died drops a member. A second unit (TestVerifC04Enumerate) places the fault at EVERY call boundary of the iteration that performs each of six membership transitions (join, death beyond the delay, broken replication, divergence, join with download lag, swap) for both orders and two shapes (quick: 540 cells, thorough: 5040 cells, each visited once). Seven root causes found on the unchanged tree are recorded as known findings (DESIGN.md).",
         design_ref="DESIGN.md section 4, C04",
         note="Trusted: ground truth = fake servers' variables and the coordination tree; (b) is not evaluated while the master's mysqld is down; the delay clauses are measured from the end of the first complete iteration in which the same manager process saw the failure. Failing ZooKeeper calls are covered by the kill mode (cut before/after the write), not as returned errors.",
         technique="stateful property-based testing with fault injection at generated call boundaries over the cluster simulation; state invariants checked before/after each iteration with change-by-change replay to name the destroying operation"),
]


CHECKS += [
    dict(property_id="C20", category="exploration",
         text="Three generated checks on the real daemons. (1) Inputs: after convergence, a generated sequence of loop bodies (manager iteration, health report, recovery check, lag check) interleaved with coordination-tree edits reachable through the CLI or external tools (host unregistered incl. the recorded or dead master, ghost hosts, stream_from dangling/self/removed, health records deleted or stale, active_nodes with unregistered names/empty/removed, recovery and optimisation entries for unregistered hosts, master key dangling/cascade/removed, switch requests naming unregistered hosts, maintenance) and faults (failing, hanging, cut statements; mysqld crashes; ZooKeeper outages; time jumps); oracle: no loop body panics (the harness recovers what would terminate the daemon); findings are identified by the two innermost daemon functions. (2) Leak: a fixed situation held for 60 rounds of every loop of every process; open connections at the fake servers and goroutines sampled after 20/40/60 rounds must not keep growing. (3) Race: a child process built with -race runs the four loops of every process concurrently in real time on 4 threads under generated workloads; oracle: the race detector's reports (harness-only reports are inconclusive). (4) the histories of other properties (maintenance windows of C09, the recovery-check product and histories of C11, the request histories of C06) are re-run with 'a daemon panic is the violation' - two further panic sites were found that way. Fifteen defects were repaired by fix: commits; one concurrency root cause (host registry refreshed under a running manager iteration) is recorded as a known finding. The inputs unit writes a flight script before every loop body: a worker process killed by a panic in a goroutine the daemon spawned is reported as a violation with that script as replay.",
         design_ref="DESIGN.md section 4, C20",
         note="Trusted: a panic recovered around a loop body is what would terminate the daemon; 'corrupts its own state' is judged only through the other properties' oracles running on the same simulation. The race check sees the interleavings the scheduler produced; a race report found by the search is reported even when a re-run does not show it again.",
         technique="property-based testing / fuzzing of coordination-tree contents and fault schedules with a crash oracle, long-run resource sampling, and randomised concurrent workloads under the Go race detector"),
]


# ---- computed last, after every CHECKS += above
_claimed = {c["property_id"] for c in CHECKS}
NOT_APPLICABLE = [dict(property_id=p, reason="check not built yet in this revision (framework under construction; see DESIGN.md build order)") for p in ALL if p not in _claimed]
