#!/bin/bash
# development helper: tools/findloop.sh <ID> <max> [check args]: runs the check repeatedly and prints each new signature (does not record anything)
ID=$1; MAX=$2; shift 2
for i in $(seq 1 $MAX); do
  rm -f /verif/replays/$ID-*
  out=$(/verif/check $ID --no-evidence "$@" 2>&1)
  f=$(ls /verif/replays/$ID-*.json 2>/dev/null | head -1)
  if [ -z "$f" ]; then echo "$out" | grep -v KNOWN | tail -2 | cut -c1-300; exit 0; fi
  python3 -c "import json;j=json.load(open('$f'));print('SIG',j['sig']);print(j['message'][:1500])"
  exit 1
done
