#!/usr/bin/env python3
"""Regenerates MANIFEST.json from tools/manifest_src.py (keeps it valid and in one place)."""
import json, os, sys
sys.path.insert(0, os.path.dirname(os.path.abspath(__file__)))
from manifest_src import CHECKS, NOT_APPLICABLE, NOTES
base = json.load(open("/root/.vp/BASELINE.json"))
m = {
    "version": 1,
    "setup_cmd": "./check --warm",
    "hooks": {
        "guard": "verif",
        "enable": "no source change in /repo: harness files under /verif/harness (all '//go:build verif') are injected with 'go test -c -tags verif -modfile=<copy of /repo/go.mod + rapid> -overlay=<add-only overlay>' run in /repo; see DESIGN.md section 1",
        "baseline_off_cmd": base["cmd"],
        "source_commits": [],
        "add_only": True,
    },
    "engines": [
        {"name": "rapid+synctest harness", "path": "/verif/harness", "serves_properties": [c["property_id"] for c in CHECKS],
         "kind_free_text": "property-based testing (pgregory.net/rapid v1.3.0, stateful generation + shrinking), exhaustive enumeration of small domains, native go fuzzing in thorough tiers; real mysync code over fake ZooKeeper/MySQL wire servers in a testing/synctest bubble"},
    ],
    "checks": [],
    "notes": NOTES,
    "not_applicable": NOT_APPLICABLE,
}
for c in CHECKS:
    pid = c["property_id"]
    m["checks"].append({
        "property_id": pid,
        "quick_cmd": "./check %s --tier quick" % pid,
        "thorough_cmd": "./check %s --tier thorough" % pid,
        "evidence_file": "/verif/evidence/%s.json" % pid,
        "replay_cmd_template": "./check %s --replay {path}" % pid,
        "engine": "rapid+synctest harness",
        "level_claimed": {"category": c["category"], "text": c["text"], "design_ref": c["design_ref"]},
        "level_note": c["note"],
        "technique": c["technique"],
    })
json.dump(m, open(os.path.join(os.path.dirname(os.path.dirname(os.path.abspath(__file__))), "MANIFEST.json"), "w"), indent=1)
print("MANIFEST.json written with %d checks, %d not_applicable" % (len(m["checks"]), len(NOT_APPLICABLE)))
